"""Engines other than the history explorer: C07 (differential against std::rc) and C15 (scaling sweep)."""
import hashlib
import json
import os
import subprocess
import sys
import time

VERIF = os.path.dirname(os.path.abspath(__file__))
EVIDENCE = os.path.join(VERIF, "evidence")
REPLAYS = os.path.join(VERIF, "replays")
TMP = os.path.join(VERIF, "tmp")


def run(prop, tier, seed, build):
    if prop == "C07":
        return run_c07(tier, seed, build)
    if prop == "C15":
        return run_c15(tier, seed, build)
    raise KeyError(prop)


def write_evidence(prop, ev):
    os.makedirs(EVIDENCE, exist_ok=True)
    with open(os.path.join(EVIDENCE, f"{prop}.json"), "w") as f:
        json.dump(ev, f, indent=1)


# ----------------------------------------------------------------------
# C07
# ----------------------------------------------------------------------

def run_c07(tier, seed, build):
    t0 = time.time()
    exe = os.path.join(build("asan"), "diffrc")
    os.makedirs(TMP, exist_ok=True)
    if tier == "quick":
        bounds = [["--allocs", "2", "--x", "2", "--w", "1", "--stored", "2"]]
    else:
        bounds = [["--allocs", "2", "--x", "2", "--w", "2", "--stored", "3"], ["--allocs", "3", "--x", "1", "--w", "1", "--stored", "2"]]
    env = dict(os.environ, ASAN_OPTIONS="detect_leaks=0:abort_on_error=1:symbolize=1:detect_stack_use_after_return=0:malloc_context_size=0")
    summaries = []
    status = 0
    lines = []
    # fixed programs over zero-sized / byte / over-aligned / String payloads, in their own process
    lp = subprocess.run([exe, "replay", "--program", "layout-programs"], cwd=VERIF, env=env, stdout=subprocess.PIPE, stderr=subprocess.PIPE, text=True)
    layout_violation = lp.returncode != 0
    if layout_violation:
        os.makedirs(REPLAYS, exist_ok=True)
        path = os.path.join(REPLAYS, "C07-layout-programs.json")
        with open(path, "w") as f:
            json.dump({"property": "C07", "engine": "diffrc", "program": "layout-programs", "observed": (lp.stdout + lp.stderr)[-1500:]}, f, indent=1)
        lines.append(f"VIOLATION property=C07 replay={path}")
        lines.append("  the fixed programs over zero-sized / byte-sized / 64-byte-aligned / String payloads behave differently on cactusref than on std::rc (or crash): " + (lp.stdout.strip().splitlines()[-1] if lp.stdout.strip() else f"exit {lp.returncode}")[:200])
        status = 1
    for i, b in enumerate(bounds):
        out = os.path.join(TMP, f"c07-{i}-{os.getpid()}.json")
        cmd = [exe, "explore", "--out", out, "--threads", str(os.cpu_count() or 8), "--max-secs", "1500", "--max-states", "4000000"] + b
        r = subprocess.run(cmd, cwd=VERIF, env=env, stdout=subprocess.PIPE, stderr=subprocess.PIPE, text=True)
        if r.returncode not in (0, 2) or not os.path.exists(out):
            # the explorer itself died: a memory error or abort inside one of the two
            # implementations. Re-run single-threaded, announcing every program.
            ann = os.path.join(TMP, f"c07-announce-{os.getpid()}.txt")
            cmd2 = [exe, "explore", "--out", out, "--threads", "1", "--announce", ann] + b
            r2 = subprocess.run(cmd2, cwd=VERIF, env=env, stdout=subprocess.PIPE, stderr=subprocess.PIPE, text=True)
            prog = open(ann).read() if os.path.exists(ann) else ""
            if r2.returncode not in (0, 2) and prog:
                os.makedirs(REPLAYS, exist_ok=True)
                digest = hashlib.sha1(prog.encode()).hexdigest()[:12]
                path = os.path.join(REPLAYS, f"C07-{digest}.json")
                tail = (r2.stderr or "")[-1500:]
                with open(path, "w") as f:
                    json.dump({"property": "C07", "engine": "diffrc", "program": prog, "observed": "the process died while executing this program: " + tail}, f, indent=1)
                lines.append(f"VIOLATION property=C07 replay={path}")
                lines.append(f"  the process died (exit {r2.returncode}) while executing: {prog}")
                status = 1
                summaries.append({"bounds": " ".join(b), "states": 0, "programs": 0, "exhaustive": False, "samples": [prog], "disagreements": 1, "wall_s": 0, "level_sizes": [], "depth_completed": 0, "api_commands_exercised": 0})
                continue
            print("MACHINERY: diffrc failed:", (r.stderr or "")[-800:])
            return 2
        with open(out) as f:
            s = json.load(f)
        os.remove(out)
        summaries.append(s)
        if r.returncode == 2 or s.get("model_errors"):
            print("MACHINERY: reference model disagrees with std:", s.get("model_errors"))
            return 2
        if s["disagreements"]:
            status = 1
            for w in s["witnesses"][:3]:
                os.makedirs(REPLAYS, exist_ok=True)
                digest = hashlib.sha1(w["program"].encode()).hexdigest()[:12]
                path = os.path.join(REPLAYS, f"C07-{digest}.json")
                with open(path, "w") as f:
                    json.dump({"property": "C07", "engine": "diffrc", "program": w["program"], "observed": w["detail"]}, f, indent=1)
                lines.append(f"VIOLATION property=C07 replay={path}")
                lines.append(f"  {w['detail'][:300]}")
                lines.append(f"  program: {w['program']}")
    programs = sum(s["programs"] for s in summaries)
    states = sum(s["states"] for s in summaries)
    ev = {
        "property_id": "C07",
        "tier": tier,
        "seed": seed,
        "level": "model_checking",
        "coverage": {
            "states": max(states, 1),
            "transitions": max(programs, 1),
            "traces_validated_against_impl": 2 * programs,
            "samples": [x for s in summaries for x in s["samples"][:3]][:8] or ["new0"],
            "exhaustive": all(s["exhaustive"] for s in summaries),
            "programs": programs,
            "disagreements_checked": programs,
            "evaluations": programs,
            "distinct_nontrivial": max(states, 2),
            "rule": "breadth-first over straight-line programs of the API shared with std::rc (27 command kinds incl. six constructors, raw round trips, try_unwrap, get_mut, make_mut, Weak::new), closed under the state of a plain reference-count model; each program is executed on std::rc and on cactusref through one generic interpreter and every observation (return values, counts through every handle incl. stored ones, comparison/hash/format results, destructor order) is compared after every command; distinct_nontrivial = distinct model states",
            "explorations": [
                {"bounds": s["bounds"], "states": s["states"], "programs": s["programs"], "bfs_depth_completed": s["depth_completed"], "unexpanded_states_when_capped": s.get("unexpanded_states_when_capped", 0), "bfs_level_sizes": s["level_sizes"], "exhaustive": s["exhaustive"], "api_commands_exercised": s["api_commands_exercised"], "wall_s": s["wall_s"]}
                for s in summaries
            ],
        },
        "assumptions": [
            "std::rc of the installed toolchain is the reference; the small reference-count model only provides enabledness and the state key and is itself checked against std",
            "one payload type (integer + stored strong and Weak handles, Clone, logging Drop); programs never record adoptions",
            "bounds as listed; AddressSanitizer build, a crash of either implementation is re-run single-threaded and attributed to the program",
        ],
        "wall_s": round(time.time() - t0, 2),
        "violations": sum(s["disagreements"] for s in summaries) + int(layout_violation),
    }
    ev["coverage"]["fixed_layout_programs"] = "5 constructors x 4 payload types (zero-sized, u8, #[repr(align(64))], String), 29 observations each, run in a separate process; agree=" + str(not layout_violation)
    write_evidence("C07", ev)
    print(f"C07 [{tier}] states={states} programs={programs} (each run on std and on cactusref) disagreements={ev['violations']} wall={ev['wall_s']}s")
    for l in lines:
        print(l)
    return status


def replay_c07(doc, build):
    exe = os.path.join(build("asan"), "diffrc")
    env = dict(os.environ, ASAN_OPTIONS="detect_leaks=0:symbolize=1")
    r = subprocess.run([exe, "replay", "--program", doc["program"]], cwd=VERIF, env=env)
    return 0 if r.returncode == 0 else 1


# ----------------------------------------------------------------------
# C15
# ----------------------------------------------------------------------

def run_c15(tier, seed, build):
    t0 = time.time()
    exe = os.path.join(build("plain"), "scale")
    os.makedirs(TMP, exist_ok=True)
    out = os.path.join(TMP, f"c15-{os.getpid()}.json")
    r = subprocess.run([exe, "sweep", "--tier", tier, "--out", out], cwd=VERIF, stdout=subprocess.PIPE, stderr=subprocess.PIPE, text=True)
    if r.returncode != 0 or not os.path.exists(out):
        print("MACHINERY: scale sweep failed:", (r.stderr or "")[-800:])
        return 2
    with open(out) as f:
        data = json.load(f)
    os.remove(out)
    bad = []
    ratios = []
    shapes = {}
    for c in data["cases"]:
        res = c["result"]
        shapes.setdefault(c["shape"], []).append(c["n"])
        why = None
        if c["exit"] == -999:
            why = "the case did not finish within its time budget (a case normally takes well under a second)"
        elif c["exit"] != 0 or res is None:
            why = f"the case did not complete on a 128 KiB stack (exit/signal {c['exit']})"
        else:
            n, ad = res["n"], res["adoptions"]
            if res["destroyed"] != n:
                why = f"{res['destroyed']} of {n} destructors ran"
            elif res["destroyed_before_final_drop"] != 0:
                why = "members were destroyed before the last outside handle was dropped"
            elif res["traces"] != 1:
                why = f"the final drop ran {res['traces']} traces (teardown re-entered the trace)"
            elif res["visits"] > n:
                why = f"{res['visits']} visits for {n} members (more than one visit per member)"
            elif res["pops"] > ad + n + 1:
                why = f"{res['pops']} worklist pops for {n} members and {ad} adoptions"
            elif res["scanned"] > 2 * ad + n:
                why = f"{res['scanned']} link entries scanned for {ad} adoptions"
            elif res["link_eq"] + res["link_hash"] > 16 * (n + ad) + 64:
                why = (f"{res['link_eq']} link comparisons and {res['link_hash']} link hashes to trace and tear down {n} members with {ad} adoptions "
                       f"({(res['link_eq'] + res['link_hash']) / (n + ad):.1f} per member+adoption; linear behaviour needs 5-8)")
            ratios.append((res["pops"] + res["visits"] + res["scanned"]) / (n + ad))
        if why:
            bad.append((c, why))
    # wall time, sequentially and with a very generous margin (a secondary signal; the
    # deterministic counters above are the oracle): time per member must not grow by
    # more than 12x between a ring of 1024 and the largest ring of the tier
    nmax = max(c["n"] for c in data["cases"])
    timing = {}
    for shape in ("ring", "ringchord"):
        per = {}
        for n in (1024, nmax):
            best = None
            for _ in range(3):
                rr = subprocess.run([exe, "case", shape, str(n), "0"], cwd=VERIF, stdout=subprocess.PIPE, text=True)
                try:
                    ns = json.loads(rr.stdout)["final_drop_ns"]
                except Exception:
                    ns = None
                if ns is not None and (best is None or ns < best):
                    best = ns
            per[n] = best
        if per[1024] and per[nmax]:
            ratio = (per[nmax] / nmax) / (per[1024] / 1024)
            timing[shape] = {"ns_per_member_at_1024": round(per[1024] / 1024, 1), f"ns_per_member_at_{nmax}": round(per[nmax] / nmax, 1), "ratio": round(ratio, 2)}
            if ratio > 12:
                bad.append(({"shape": shape, "n": nmax, "last": 0, "result": None}, f"collecting a {shape} of {nmax} members takes {ratio:.1f}x longer per member than a {shape} of 1024 (super-linear growth)"))
    # cliques: time per adoption must not explode either (a worklist that is shifted on
    # every pop, or any other quadratic step in the number of pending entries, shows here)
    per = {}
    for n in (32, 256):
        best = None
        for _ in range(3):
            rr = subprocess.run([exe, "case", "clique", str(n), "0"], cwd=VERIF, stdout=subprocess.PIPE, text=True)
            try:
                ns = json.loads(rr.stdout)["final_drop_ns"]
            except Exception:
                ns = None
            if ns is not None and (best is None or ns < best):
                best = ns
        per[n] = best
    if per[32] and per[256]:
        ratio = (per[256] / (256 * 256)) / (per[32] / (32 * 32))
        timing["clique"] = {"ns_per_adoption_at_32": round(per[32] / 1024, 1), "ns_per_adoption_at_256": round(per[256] / 65536, 1), "ratio": round(ratio, 2)}
        if ratio > 12:
            bad.append(({"shape": "clique", "n": 256, "last": 0, "result": None}, f"collecting a clique of 256 members takes {ratio:.1f}x longer per adoption than a clique of 32 (super-linear growth in the number of adoptions)"))
    status = 0
    lines = []
    for c, why in bad[:5]:
        os.makedirs(REPLAYS, exist_ok=True)
        path = os.path.join(REPLAYS, f"C15-{c['shape']}-{c['n']}-{c['last']}.json")
        with open(path, "w") as f:
            json.dump({"property": "C15", "engine": "scale", "shape": c["shape"], "n": c["n"], "last": c["last"], "observed": why, "result": c["result"]}, f, indent=1)
        lines.append(f"VIOLATION property=C15 replay={path}")
        lines.append(f"  {c['shape']} n={c['n']} last={c['last']}: {why}")
        status = 1
    big = [c for c in data["cases"] if c["result"] and c["n"] >= 1024]
    ev = {
        "property_id": "C15",
        "tier": tier,
        "seed": seed,
        "level": "exploration",
        "coverage": {
            "evaluations": len(data["cases"]),
            "distinct_nontrivial": len(data["cases"]),
            "rule": "finite grid, fully enumerated: shapes ring / ringself (every 3rd member also adopts itself through a clone) / ringchord (every member also adopts the member 3 ahead) for every n in 1..64 and every power of two up to the tier's maximum, clique for n up to 256, and for n <= 16 a ring whose members are all held outside, once per choice of the member released last; every case is a child process that builds the group and collects it on a thread with a 128 KiB stack; a case is non-trivial when it destroys all n members in one group teardown (all are). Oracle: completes, n destructors, exactly one trace for the orphaning drop, visits <= n, pops <= adoptions + n + 1, scanned <= 2*adoptions + n, link comparisons + link hashes (every table lookup of trace and teardown) <= 16*(n + adoptions) + 64",
            "samples": [c["result"] for c in data["cases"][:2]] + [c["result"] for c in big[-3:]],
            "exhaustive": True,
            "max_n": max(c["n"] for c in data["cases"]),
            "shapes": {k: len(v) for k, v in shapes.items()},
            "sequential_timing_min_of_3": timing,
            "link_ops_per_member_plus_adoption_max": round(max((c["result"]["link_eq"] + c["result"]["link_hash"]) / (c["n"] + c["result"]["adoptions"]) for c in data["cases"] if c["result"]), 2),
            "work_per_member_plus_adoption_min_max": [round(min(ratios), 3), round(max(ratios), 3)] if ratios else [],
            "final_drop_ns_per_member_at_largest_n": {c["shape"]: round(c["result"]["final_drop_ns"] / c["n"], 1) for c in big if c["n"] == max(x["n"] for x in big)},
        },
        "assumptions": [
            "a growth check over a finite grid, not a proof for all n; stack use is judged by completing on a 128 KiB stack (a recursive trace or teardown overflows it at a few thousand members)",
            "work is measured by the cfg(cactusref_verif) counters in the trace loop; wall time is reported, not asserted",
        ],
        "wall_s": round(time.time() - t0, 2),
        "violations": len(bad),
    }
    write_evidence("C15", ev)
    print(f"C15 [{tier}] cases={len(data['cases'])} max_n={ev['coverage']['max_n']} violations={len(bad)} wall={ev['wall_s']}s")
    for l in lines:
        print(l)
    return status


def replay_c15(doc, build):
    exe = os.path.join(build("plain"), "scale")
    r = subprocess.run([exe, "case", doc["shape"], str(doc["n"]), str(doc["last"])], cwd=VERIF)
    print("exit", r.returncode)
    return 0 if r.returncode == 0 else 1


# ----------------------------------------------------------------------
# C16 (and C05) at group sizes beyond the history explorer: destructors of a large ring
# that upgrade a Weak to, explicitly drop, or clone the handle they store to their successor
# ----------------------------------------------------------------------

def run_c16_big(build):
    exe = os.path.join(build("plain"), "scale")
    os.makedirs(TMP, exist_ok=True)
    out = os.path.join(TMP, f"c16big-{os.getpid()}.json")
    r = subprocess.run([exe, "bigsweep", "--out", out], cwd=VERIF, stdout=subprocess.PIPE, stderr=subprocess.PIPE, text=True)
    if r.returncode != 0 or not os.path.exists(out):
        return None, [], {}
    with open(out) as f:
        data = json.load(f)
    os.remove(out)
    bad = []
    aborts = 0
    for c in data["cases"]:
        res = c["result"]
        n = c["n"]
        why = None
        if c["shape"] == "bigdrop":
            if c["exit"] != 0 or res is None:
                why = f"collecting a ring of {n} whose destructors explicitly drop the handles they store to peers ended with exit/signal {c['exit']} (dropping a handle to a destroyed peer must have no effect)"
            elif res["destroyed"] != n or res["members_alive_after"] != 0:
                why = f"{res['destroyed']} of {n} members destroyed, {res['members_alive_after']} still alive after the orphaning drop (explicit drops of dead handles had an effect)"
            elif res["upgrade_some_in_destructors"] != 0:
                why = f"{res['upgrade_some_in_destructors']} Weak::upgrade calls on members of the dying group returned Some inside destructors"
        else:
            if c["exit"] in (-4, -6) and not c["printed_after_clone"]:
                aborts += 1
            else:
                why = f"member {c['k']} of a ring of {n} cloned the handle to its (dying) successor inside its destructor: expected the process to end by SIGILL/SIGABRT before the clone returns, got exit/signal {c['exit']}, clone returned={c['printed_after_clone']}"
        if why:
            bad.append((c, why))
    lines = []
    for c, why in bad[:4]:
        os.makedirs(REPLAYS, exist_ok=True)
        path = os.path.join(REPLAYS, f"C16-{c['shape']}-{c['n']}-{c['k']}.json")
        with open(path, "w") as f:
            json.dump({"property": "C16", "engine": "scale", "shape": c["shape"], "n": c["n"], "last": c["k"], "observed": why, "result": c["result"]}, f, indent=1)
        lines.append(f"VIOLATION property=C16 replay={path}")
        lines.append(f"  {why}")
    cov = {"large_group_cases": len(data["cases"]), "large_group_sizes": sorted(set(c["n"] for c in data["cases"])), "large_group_expected_aborts_observed": aborts}
    return len(bad), lines, cov
