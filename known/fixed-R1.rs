// Generated from ./check --replay known/fixed-R1.json
// Property C02, oracle clause CRASH [asan:use-after-poison:READ:cactusref::drop::drop_unreachable_with_adoptions]
// Observed by the explorer: on the pinned tree (before 4239e1b): AddressSanitizer use-after-poison READ of the moved-out link table of object 0 from drop_unreachable_with_adoptions(object 1)
// Drop this file into /repo/tests/ and run: cargo test --test replay_fixed_r1
// (memory errors show under: RUSTFLAGS=-Zsanitizer=address cargo test --target x86_64-unknown-linux-gnu --test replay_fixed_r1,
//  or cargo +nightly miri test --test replay_fixed_r1)
#![allow(unused_variables, unused_mut, clippy::all)]
use cactusref::{Adopt, Rc, Weak};
use std::cell::RefCell;

thread_local! { static DROPPED: RefCell<Vec<usize>> = RefCell::new(Vec::new()); }

#[derive(Clone)]
struct Node {
    id: usize,
    slots: RefCell<Vec<(usize, Rc<Node>)>>,
    wslots: RefCell<Vec<(usize, Weak<Node>)>>,
}
impl Drop for Node {
    fn drop(&mut self) {
        DROPPED.with(|d| d.borrow_mut().push(self.id));
    }
}
fn node(id: usize) -> Node {
    Node { id, slots: RefCell::new(Vec::new()), wslots: RefCell::new(Vec::new()) }
}
fn dropped() -> Vec<usize> {
    DROPPED.with(|d| d.borrow().clone())
}
fn take(owner: &Rc<Node>, target: usize) -> Rc<Node> {
    let mut s = owner.slots.borrow_mut();
    let i = s.iter().rposition(|(t, _)| *t == target).unwrap();
    s.remove(i).1
}

#[test]
fn replay() {
    // ext[o]: strong handles to object o held by the program; extw[o]: Weak handles
    let mut ext: Vec<Vec<Rc<Node>>> = (0..8).map(|_| Vec::new()).collect();
    let mut extw: Vec<Vec<Weak<Node>>> = (0..8).map(|_| Vec::new()).collect();
    let mut unwrapped: Vec<Option<Node>> = (0..8).map(|_| None).collect();
    let mut next = 0usize;

    // step 0: new
    ext[next].push(Rc::new(node(next))); next += 1;
    println!("after step 0 (new): destroyed so far {:?}", dropped());
    check(&ext, 0);
    // step 1: new
    ext[next].push(Rc::new(node(next))); next += 1;
    println!("after step 1 (new): destroyed so far {:?}", dropped());
    check(&ext, 1);
    // step 2: clone:0
    { let h = if let Some(h) = ext[0].first() { Rc::clone(h) } else { find(&ext, 0).expect("reachable") }; ext[0].push(h); }
    println!("after step 2 (clone:0): destroyed so far {:?}", dropped());
    check(&ext, 2);
    // step 3: store:0:0:adopt
    { let h = ext[0].pop().unwrap(); let this = &ext[0][0];
      unsafe { Rc::adopt_unchecked(this, &h); } this.slots.borrow_mut().push((0, h)); }
    println!("after step 3 (store:0:0:adopt): destroyed so far {:?}", dropped());
    check(&ext, 3);
    // step 4: store:0:1:adopt
    { let h = ext[1].pop().unwrap(); let this = &ext[0][0];
      unsafe { Rc::adopt_unchecked(this, &h); } this.slots.borrow_mut().push((1, h)); }
    println!("after step 4 (store:0:1:adopt): destroyed so far {:?}", dropped());
    check(&ext, 4);
    // step 5: drop:0
    { let h = ext[0].pop().unwrap(); drop(h); }
    println!("after step 5 (drop:0): destroyed so far {:?}", dropped());
    check(&ext, 5);
    // what the program still holds must be intact; compare the output above with the explorer's report
    for (o, hs) in ext.iter().enumerate() { for h in hs { assert_eq!(h.id, o, "value of a held handle"); } }
    std::mem::forget((ext, extw, unwrapped)); // the explorer does not tear the graph down either
}

/// no destructor ran twice, and no object the program holds a handle to was destroyed
fn check(ext: &[Vec<Rc<Node>>], step: usize) {
    let d = dropped();
    for (i, x) in d.iter().enumerate() {
        assert!(!d[..i].contains(x), "destructor of object {x} ran twice (after step {step})");
    }
    for (o, hs) in ext.iter().enumerate() {
        if !hs.is_empty() {
            assert!(!d.contains(&o), "object {o} was destroyed while the program holds a handle to it (after step {step})");
        }
    }
}

/// a strong handle to `o` stored in a value reachable from outside handles
fn find(ext: &[Vec<Rc<Node>>], o: usize) -> Option<Rc<Node>> {
    fn walk(h: &Rc<Node>, o: usize, seen: &mut Vec<usize>) -> Option<Rc<Node>> {
        if seen.contains(&h.id) { return None; }
        seen.push(h.id);
        let s = h.slots.borrow();
        for (t, c) in s.iter() { if *t == o { return Some(Rc::clone(c)); } }
        for (_, c) in s.iter() { if let Some(r) = walk(c, o, seen) { return Some(r); } }
        None
    }
    let mut seen = Vec::new();
    for hs in ext { if let Some(h) = hs.first() { if let Some(r) = walk(h, o, &mut seen) { return Some(r); } } }
    None
}
