// Generated from ./check --replay known/KF-R2.json
// Property C03, oracle clause K3 [orphaned-group-not-destroyed;loopback=1;zero_count=0]
// Observed by the explorer: objects 0b1 had to be destroyed by this call (must=0b1, destroyed=0b0); object 0 holds one handle to itself, recorded with adopt_unchecked(&h,&h); after the last outside handle is dropped every strong handle to it is a recorded adoption held by itself, yet it is not destroyed
// Drop this file into /repo/tests/ and run: cargo test --test replay_kf_r2
// (memory errors show under: RUSTFLAGS=-Zsanitizer=address cargo test --target x86_64-unknown-linux-gnu --test replay_kf_r2,
//  or cargo +nightly miri test --test replay_kf_r2)
#![allow(unused_variables, unused_mut, clippy::all)]
use cactusref::{Adopt, Rc, Weak};
use std::cell::RefCell;

thread_local! { static DROPPED: RefCell<Vec<usize>> = RefCell::new(Vec::new()); }

#[derive(Clone)]
struct Node {
    id: usize,
    slots: RefCell<Vec<(usize, Rc<Node>)>>,
    wslots: RefCell<Vec<(usize, Weak<Node>)>>,
}
impl Drop for Node {
    fn drop(&mut self) {
        DROPPED.with(|d| d.borrow_mut().push(self.id));
    }
}
fn node(id: usize) -> Node {
    Node { id, slots: RefCell::new(Vec::new()), wslots: RefCell::new(Vec::new()) }
}
fn dropped() -> Vec<usize> {
    DROPPED.with(|d| d.borrow().clone())
}
fn take(owner: &Rc<Node>, target: usize) -> Rc<Node> {
    let mut s = owner.slots.borrow_mut();
    let i = s.iter().rposition(|(t, _)| *t == target).unwrap();
    s.remove(i).1
}

#[test]
fn replay() {
    // ext[o]: strong handles to object o held by the program; extw[o]: Weak handles
    let mut ext: Vec<Vec<Rc<Node>>> = (0..8).map(|_| Vec::new()).collect();
    let mut extw: Vec<Vec<Weak<Node>>> = (0..8).map(|_| Vec::new()).collect();
    let mut unwrapped: Vec<Option<Node>> = (0..8).map(|_| None).collect();
    let mut next = 0usize;

    // step 0: new
    ext[next].push(Rc::new(node(next))); next += 1;
    println!("after step 0 (new): destroyed so far {:?}", dropped());
    check(&ext, 0);
    // step 1: clone:0
    { let h = if let Some(h) = ext[0].first() { Rc::clone(h) } else { find(&ext, 0).expect("reachable") }; ext[0].push(h); }
    println!("after step 1 (clone:0): destroyed so far {:?}", dropped());
    check(&ext, 1);
    // step 2: store:0:0:sameref
    { let h = ext[0].pop().unwrap(); let this = &ext[0][0];
      unsafe { Rc::adopt_unchecked(this, this); } this.slots.borrow_mut().push((0, h)); }
    println!("after step 2 (store:0:0:sameref): destroyed so far {:?}", dropped());
    check(&ext, 2);
    // step 3: drop:0
    { let h = ext[0].pop().unwrap(); drop(h); }
    println!("after step 3 (drop:0): destroyed so far {:?}", dropped());
    check(&ext, 3);
    assert!(dropped().contains(&0), "object 0 is orphaned (every handle to its recorded group is a recorded adoption held inside the group) and had to be destroyed by the last call");
    // what the program still holds must be intact; compare the output above with the explorer's report
    for (o, hs) in ext.iter().enumerate() { for h in hs { assert_eq!(h.id, o, "value of a held handle"); } }
    std::mem::forget((ext, extw, unwrapped)); // the explorer does not tear the graph down either
}

/// no destructor ran twice, and no object the program holds a handle to was destroyed
fn check(ext: &[Vec<Rc<Node>>], step: usize) {
    let d = dropped();
    for (i, x) in d.iter().enumerate() {
        assert!(!d[..i].contains(x), "destructor of object {x} ran twice (after step {step})");
    }
    for (o, hs) in ext.iter().enumerate() {
        if !hs.is_empty() {
            assert!(!d.contains(&o), "object {o} was destroyed while the program holds a handle to it (after step {step})");
        }
    }
}

/// a strong handle to `o` stored in a value reachable from outside handles
fn find(ext: &[Vec<Rc<Node>>], o: usize) -> Option<Rc<Node>> {
    fn walk(h: &Rc<Node>, o: usize, seen: &mut Vec<usize>) -> Option<Rc<Node>> {
        if seen.contains(&h.id) { return None; }
        seen.push(h.id);
        let s = h.slots.borrow();
        for (t, c) in s.iter() { if *t == o { return Some(Rc::clone(c)); } }
        for (_, c) in s.iter() { if let Some(r) = walk(c, o, seen) { return Some(r); } }
        None
    }
    let mut seen = Vec::new();
    for hs in ext { if let Some(h) = hs.first() { if let Some(r) = walk(h, o, &mut seen) { return Some(r); } } }
    None
}
