"""Per-property plans, violation attribution, known findings, evidence writer."""
import hashlib
import json
import os
import subprocess
import sys
import time

VERIF = os.path.dirname(os.path.abspath(__file__))
EVIDENCE = os.path.join(VERIF, "evidence")
REPLAYS = os.path.join(VERIF, "replays")
TMP = os.path.join(VERIF, "tmp")
KNOWN = os.path.join(VERIF, "known_findings.json")

# ----------------------------------------------------------------------
# plans: property -> tier -> list of explorations (engine mc)
# Every exploration is a closed breadth-first search over histories; see
# DESIGN.md section 6 for the reasoning behind each alphabet and bound.
# ----------------------------------------------------------------------

CORE = "plain=1,sameref=1,bare=1,keep=1"


def layouts(seed, k):
    """k layouts: always 0 (consecutive) and 1 (reversed), the rest rotate with the seed."""
    out = [0, 1]
    i = 0
    while len(out) < k:
        out.append(2 + (seed * 7 + i) % 60)
        i += 1
    return "+".join(str(x) for x in sorted(set(out[:k])))


def plan(prop, tier, seed):
    """(build variant, bounds+alphabet, extra flags) per exploration.

    Bounds: n objects, e stored strong handles in total, m per ordered pair, x
    outside strong handles per object, w Weak handles per object, ws stored
    Weak handles, s armed destructor scripts, elide = elided unadopts.
    Quick tiers are sized for < 1 minute on 16 cores, thorough tiers for
    minutes (measured wall times are in the evidence).
    """
    q = tier == "quick"
    L = lambda k: layouts(seed, k)
    if prop in ("C01", "C03"):
        if q:
            return [
                ("asan", f"n=3,e=3,m=2,x=2,{CORE},late=1,layouts={L(3)}", []),
                ("asan", f"n=3,e=4,m=2,x=1,plain=1,sameref=1,bare=0,keep=0,layouts={L(2)}", []),
            ]
        return [
            ("asan", f"n=3,e=4,m=3,x=2,{CORE},late=1,layouts={L(6)}", []),
            ("asan", f"n=4,e=4,m=2,x=1,plain=1,sameref=0,bare=0,keep=0,layouts={L(2)}", []),
            ("asan", f"n=3,e=5,m=2,x=1,plain=1,sameref=1,bare=0,keep=0,layouts={L(2)}", []),
            ("asan", f"n=3,e=3,m=2,x=2,{CORE},past=1,layouts={L(2)}", []),
        ]
    if prop == "C06" and q:
        return [
            ("asan", f"n=3,e=2,m=2,x=2,w=1,ws=1,weak=1,plain=1,sameref=0,bare=0,keep=0,layouts={L(2)}", []),
            ("asan", f"n=3,e=3,m=2,x=2,plain=1,sameref=0,bare=0,keep=0,layouts={L(2)}", []),
            ("asan", f"n=3,e=2,m=2,x=2,w=1,ws=0,weak=1,plain=1,sameref=0,bare=0,keep=0,consume=1,layouts={L(2)}", []),
        ]
    if prop in ("C02", "C04", "C06"):
        if q:
            return [
                ("asan", f"n=3,e=2,m=2,x=2,w=1,ws=1,weak=1,plain=1,sameref=1,bare=0,keep=0,layouts={L(2)}", []),
                ("asan", f"n=3,e=3,m=2,x=2,{CORE},layouts={L(2)}", []),
            ]
        return [
            ("asan", f"n=3,e=3,m=2,x=2,w=1,ws=1,weak=1,plain=1,sameref=1,bare=0,keep=0,layouts={L(2)}", []),
            ("asan", f"n=2,e=4,m=3,x=2,w=2,ws=2,weak=1,{CORE},layouts={L(4)}", []),
            ("asan", f"n=3,e=4,m=3,x=2,{CORE},late=1,layouts={L(4)}", []),
            ("asan", f"n=3,e=3,m=2,x=2,w=1,ws=0,weak=1,{CORE},bare=0,past=1,layouts={L(2)}", []),
        ] + ([("asan", f"n=3,e=3,m=2,x=2,w=1,ws=0,weak=1,plain=1,sameref=0,bare=0,keep=0,consume=1,layouts={L(2)}", [])] if prop == "C06" else [])
    if prop == "C05":
        if q:
            return [
                ("asan", f"n=3,e=2,m=1,x=1,w=1,ws=1,weak=1,plain=1,sameref=0,bare=0,keep=0,s=1,sown=1,layouts={L(2)}", []),
                ("asan", f"n=2,e=2,m=2,x=1,w=2,ws=2,weak=1,plain=1,sameref=0,bare=0,keep=0,s=1,sown=1,layouts={L(2)}", []),
            ]
        return [
            ("asan", f"n=3,e=3,m=2,x=1,w=1,ws=1,weak=1,plain=1,sameref=0,bare=0,keep=0,s=1,sown=1,layouts={L(2)}", []),
            ("asan", f"n=2,e=3,m=2,x=2,w=2,ws=2,weak=1,plain=1,sameref=0,bare=0,keep=0,s=1,sown=1,layouts={L(3)}", []),
        ]
    if prop == "C08":
        if q:
            return [
                ("asan", f"n=3,e=3,m=2,x=2,plain=1,sameref=0,bare=1,keep=1,probe=1,layouts={L(2)}", []),
                ("asan", f"n=3,e=3,m=2,x=2,{CORE},late=1,layouts={L(2)}", []),
                ("asan", f"n=3,e=2,m=2,x=2,w=1,ws=0,weak=1,plain=1,sameref=0,bare=0,keep=0,consume=1,layouts={L(2)}", []),
            ]
        return [
            ("asan", f"n=3,e=4,m=3,x=2,plain=1,sameref=0,bare=1,keep=1,late=1,probe=1,layouts={L(3)}", []),
            ("asan", f"n=3,e=4,m=3,x=2,{CORE},late=1,layouts={L(3)}", []),
            ("asan", f"n=3,e=3,m=2,x=2,plain=1,sameref=0,bare=1,keep=1,probe=1,past=1,layouts={L(2)}", []),
            ("asan", f"n=3,e=3,m=2,x=2,w=1,ws=0,weak=1,plain=1,sameref=0,bare=0,keep=0,consume=1,layouts={L(2)}", []),
        ]
    if prop == "C09":
        if q:
            return [
                ("asan", f"n=3,e=3,m=2,x=2,plain=0,sameref=0,bare=0,keep=0,probe=1,layouts={L(6)}", []),
                ("asan", f"n=3,e=2,m=2,x=1,plain=0,sameref=0,bare=0,keep=0,w=1,ws=1,weak=1,probe=1,layouts={L(4)}", []),
                ("asan", f"n=3,e=5,m=1,x=1,plain=0,sameref=0,bare=0,keep=0,probe=1,layouts={L(8)}", []),
            ]
        return [
            ("asan", f"n=3,e=4,m=3,x=2,plain=0,sameref=0,bare=0,keep=0,probe=1,layouts={L(16)}", []),
            ("asan", f"n=3,e=3,m=2,x=2,plain=0,sameref=0,bare=0,keep=0,w=1,ws=1,weak=1,probe=1,layouts={L(8)}", []),
            ("asan", f"n=4,e=4,m=2,x=1,plain=0,sameref=0,bare=0,keep=0,probe=1,layouts={L(6)}", []),
            ("asan", f"n=3,e=3,m=2,x=2,plain=0,sameref=1,bare=0,keep=0,layouts={L(8)}", []),
            ("asan", f"n=4,e=5,m=1,x=1,plain=0,sameref=0,bare=0,keep=0,probe=1,layouts={L(4)}", []),
        ]
    if prop == "C10":
        if q:
            return [
                ("asan", f"n=3,e=2,m=1,x=2,plain=1,sameref=0,bare=0,keep=0,s=1,sapi=1,layouts={L(2)}", []),
                ("asan", f"n=3,e=3,m=1,x=2,plain=0,sameref=0,bare=0,keep=0,s=1,sapi=1,layouts={L(2)}", []),
                ("asan", f"n=2,e=2,m=1,x=2,w=1,ws=0,weak=1,plain=0,sameref=0,bare=0,keep=0,s=1,sapi=1,layouts={L(2)}", []),
            ]
        return [
            ("asan", f"n=3,e=2,m=1,x=1,w=1,ws=0,weak=1,plain=1,sameref=0,bare=0,keep=0,s=1,sapi=1,layouts={L(2)}", []),
            ("asan", f"n=3,e=3,m=2,x=1,plain=1,sameref=0,bare=0,keep=0,s=1,sapi=1,layouts={L(3)}", []),
            ("asan", f"n=3,e=2,m=1,x=1,plain=1,sameref=0,bare=0,keep=0,s=2,sapi=1,layouts={L(2)}", []),
            ("asan", f"n=3,e=3,m=1,x=2,plain=0,sameref=0,bare=0,keep=0,s=1,sapi=1,layouts={L(2)}", []),
            ("asan", f"n=3,e=3,m=1,x=2,w=1,ws=0,weak=1,plain=0,sameref=0,bare=0,keep=0,s=1,sapi=1,layouts={L(2)}", []),
        ]
    if prop == "C11":
        if q:
            return [("asan", f"n=3,e=2,m=2,x=1,w=1,ws=1,weak=1,plain=1,sameref=0,bare=0,keep=0,s=1,spanic=1,layouts={L(2)}", [])]
        return [
            ("asan", f"n=3,e=3,m=2,x=1,w=1,ws=1,weak=1,plain=1,sameref=0,bare=0,keep=0,s=1,spanic=1,layouts={L(3)}", []),
            ("asan", f"n=3,e=3,m=2,x=2,plain=1,sameref=1,bare=0,keep=0,s=1,spanic=1,layouts={L(3)}", []),
        ]
    if prop == "C12":
        if q:
            return [("asan", f"n=3,e=2,m=2,x=2,w=1,ws=0,weak=1,plain=1,sameref=0,bare=0,keep=0,consume=1,layouts={L(2)}", [])]
        return [
            ("asan", f"n=3,e=3,m=2,x=2,w=1,ws=0,weak=1,plain=1,sameref=0,bare=0,keep=0,consume=1,layouts={L(2)}", []),
            ("asan", f"n=3,e=2,m=2,x=2,w=1,ws=1,weak=1,plain=1,sameref=1,bare=0,keep=0,consume=1,layouts={L(3)}", []),
        ]
    if prop == "C13":
        if q:
            return [
                ("asan", f"n=3,e=2,m=2,x=2,plain=1,sameref=1,bare=0,keep=1,elide=1,layouts={L(2)}", []),
                ("asan", f"n=2,e=3,m=2,x=2,plain=1,sameref=0,bare=0,keep=0,elide=2,layouts={L(4)}", []),
                ("asan", f"n=2,e=2,m=2,x=2,w=1,ws=0,weak=1,plain=1,sameref=0,bare=0,keep=0,elide=1,consume=1,layouts={L(2)}", []),
            ]
        return [
            ("asan", f"n=3,e=3,m=2,x=2,plain=1,sameref=1,bare=0,keep=1,elide=1,layouts={L(2)}", []),
            ("asan", f"n=3,e=3,m=2,x=1,plain=1,sameref=0,bare=0,keep=0,elide=2,layouts={L(2)}", []),
            ("asan", f"n=2,e=4,m=3,x=2,plain=1,sameref=1,bare=0,keep=1,elide=2,layouts={L(3)}", []),
            ("asan", f"n=3,e=2,m=2,x=2,w=1,ws=0,weak=1,plain=1,sameref=0,bare=0,keep=0,elide=1,consume=1,layouts={L(2)}", []),
        ]
    if prop == "C14":
        if q:
            return [("plain", f"n=3,e=3,m=2,x=2,{CORE},past=1,layouts=0", ["--cost"])]
        return [
            ("plain", f"n=3,e=4,m=3,x=2,{CORE},past=1,layouts=0+1", ["--cost"]),
            ("plain", f"n=3,e=3,m=2,x=2,w=1,ws=1,weak=1,plain=1,sameref=1,bare=1,keep=0,past=1,layouts=0", ["--cost"]),
        ]
    if prop == "C16":
        if q:
            return [("asan", f"n=3,e=3,m=2,x=1,plain=1,sameref=0,bare=0,keep=0,s=1,sdead=1,layouts={L(2)}", [])]
        return [
            ("asan", f"n=3,e=4,m=2,x=1,plain=1,sameref=0,bare=0,keep=0,s=1,sdead=1,layouts={L(4)}", []),
            ("asan", f"n=3,e=3,m=2,x=2,plain=1,sameref=1,bare=0,keep=0,s=1,sdead=1,layouts={L(2)}", []),
        ]
    raise KeyError(prop)


LEVEL = {
    "C11": "fault_enumeration",
    "C16": "exploration",
}

# which oracle clauses a property's check answers for, in histories of the plain alphabet
BASE_CLAUSE = {
    "K1": "C01", "K2": "C02", "K3": "C03", "K4": "C04", "K5": "C05", "K6": "C06",
    "K8": "C08", "K9": "C09", "K10": "C10", "K11": "C11", "K12": "C12", "K13": "C13",
    "K14": "C14", "K16": "C16",
}

CONSUMING = ("tryunwrap", "dropunwrapped", "makemut", "getmut", "rawroundtrip", "incstrong", "decstrong")


def attribute(clause, sig, history):
    """Which property does this violation belong to? (DESIGN.md 2.4 / 5.3)

    A clause belongs to the property that states it. Histories that use an
    extended alphabet (destructor scripts, handle-consuming calls, elided
    unadopt) are only generated by the check of the property that extends the
    alphabet, and there the clauses that property lists are attributed to it;
    everything else is "OTHER" (counted, reported by its own check).
    """
    ops = history.split(",") if history else []
    scripts = [o.split(":")[2] for o in ops if o.startswith("arm:")]
    if clause == "MACHINERY":
        return "MACHINERY"
    if any(s == "panic" for s in scripts):
        return "C11" if clause in ("K1", "K2", "K5", "K6", "K11", "CRASH") else "OTHER"
    if scripts:
        fam = scripts[0].split(".")[0]
        if fam in ("upgradeown", "upgraderoot") and not any(s.split(".")[0] not in ("upgradeown", "upgraderoot") for s in scripts):
            # C05: Weak::upgrade asked from inside destructors
            return "C05" if clause in ("K5", "K2", "CRASH") else "OTHER"
        if fam in ("dropown", "cloneown"):
            return "C16" if clause in ("K16", "K6", "K2", "K10", "CRASH") else "OTHER"
        return "C10" if clause in ("K1", "K2", "K3", "K4", "K5", "K6", "K10", "CRASH") and "loopback=1" not in sig else "OTHER"
    if any(o.startswith("take:") and o.endswith(":elide") for o in ops):
        return "C13" if clause in ("K13", "K1", "K2", "CRASH") else "OTHER"
    if any(o.split(":")[0] in CONSUMING for o in ops):
        return "C12" if clause in ("K1", "K2", "K3", "K4", "K5", "K6", "K8", "K12", "CRASH") and "loopback=1" not in sig else "OTHER"
    if any(o.startswith("take:") and o.endswith(":elide") for o in ops):
        return "C13" if clause in ("K13", "K1", "K2", "CRASH") else "OTHER"
    if clause == "CRASH":
        # a sanitizer report / crash: inside the library it is C02's "touches freed
        # or moved-out memory"; a crash while the harness reads through a handle it
        # holds is C01's "dereferencing a held handle yields the intact value"
        return "C01" if ":harness:" in sig else "C02"
    return BASE_CLAUSE.get(clause, "OTHER")


def attributed_to(prop, clause, sig, history):
    """Does this violation count for `prop`? One primary property per violation,
    plus: a memory error inside Weak code (upgrade/drop/counts on an allocation that
    should have been kept for its Weak handles) is also C05's "keeps the bare
    allocation valid until the last Weak is dropped"."""
    primary = attribute(clause, sig, history)
    if primary == prop:
        return True
    ops = history.split(",") if history else []
    uses_weak = any(o.split(":")[0] in ("downgrade", "storeweak", "cloneweak") for o in ops)
    if prop == "C05" and clause == "CRASH" and primary == "C02" and ("Weak" in sig or uses_weak):
        # the allocation of an object must stay valid while Weak handles to it exist and
        # the strong side is still at work: a memory error in a history with Weak handles
        return True
    scripts = [o.split(":")[2].split(".")[0] for o in ops if o.startswith("arm:")]
    if prop == "C10" and scripts and clause in ("K5", "K2", "CRASH") and all(f in ("upgraderoot", "dropweakroot", "upgradeown") for f in scripts):
        # C10: destructors "may try to upgrade Weak handles to dying peers (getting None)"
        return True
    if prop == "C08" and clause in ("K8", "K12") and primary == "C12" and "table" in sig:
        # records involving an object must disappear when its allocation stops being a live
        # object - also when that happens through try_unwrap / make_mut
        return True
    if prop == "C06" and clause == "K6" and primary in ("C12", "C10"):
        # counts are exact after every operation, also the handle-consuming ones
        return True
    return False


def load_known():
    if not os.path.exists(KNOWN):
        return {"findings": [], "fixed": []}
    with open(KNOWN) as f:
        return json.load(f)


def mc_exe(build, variant):
    return os.path.join(build(variant), "mc")


def run_mc(build, variant, spec, flags, tag, caps):
    exe = mc_exe(build, variant)
    os.makedirs(TMP, exist_ok=True)
    out = os.path.join(TMP, f"summary-{tag}-{os.getpid()}.json")
    run_dir = os.path.join(TMP, f"run-{tag}-{os.getpid()}")
    cmd = [exe, "explore", "--cfg", spec, "--out", out, "--workers", str(os.cpu_count() or 8), "--run-dir", run_dir] + flags + caps
    t0 = time.time()
    r = subprocess.run(cmd, cwd=VERIF, stdout=subprocess.PIPE, stderr=subprocess.PIPE, text=True)
    wall = time.time() - t0
    progress = r.stderr.strip().splitlines()[-1:] if r.stderr else []
    if not os.path.exists(out):
        sys.stdout.write(r.stderr[-4000:])
        print(f"MACHINERY: explorer produced no summary (exit {r.returncode})")
        sys.exit(2)
    with open(out) as f:
        summary = json.load(f)
    os.remove(out)
    summary["cmd"] = " ".join(cmd)
    summary["exit"] = r.returncode
    summary["wall_s"] = wall
    summary["progress"] = progress
    return summary


def write_replay(prop, clause, sig, spec, variant, flags, wit):
    os.makedirs(REPLAYS, exist_ok=True)
    digest = hashlib.sha1((prop + clause + sig + wit["history"] + str(wit["layout"])).encode()).hexdigest()[:12]
    path = os.path.join(REPLAYS, f"{prop}-{digest}.json")
    lay = wit["layout"]
    if lay < 0:
        lay = int(spec.split("layouts=")[1].split("+")[0])
    doc = {
        "property": prop,
        "clause": clause,
        "signature": sig,
        "config": spec,
        "build": variant,
        "flags": flags,
        "layout": lay,
        "history": wit["history"],
        "observed": wit["detail"],
        "how_to_replay": f"./check --replay {path}",
    }
    with open(path, "w") as f:
        json.dump(doc, f, indent=1)
    try:
        import gentest
        name = os.path.basename(path)[:-5].replace("-", "_").lower()
        src = gentest.gen_test(doc, name)
        if src:
            with open(path[:-5] + ".rs", "w") as f:
                f.write(src)
            doc["plain_test"] = path[:-5] + ".rs"
            with open(path, "w") as f:
                json.dump(doc, f, indent=1)
    except Exception as e:  # the replay file is what counts
        print("note: no plain test generated:", e)
    return path


def replay(path, build, extra=()):
    with open(path) as f:
        doc = json.load(f)
    if doc.get("engine") == "diffrc":
        import engines
        return engines.replay_c07(doc, build)
    if doc.get("engine") == "scale":
        import engines
        return engines.replay_c15(doc, build)
    exe = mc_exe(build, doc.get("build", "asan"))
    cmd = [exe, "replay", "--cfg", doc["config"], "--layout", str(doc["layout"]), "--history", doc["history"]] + list(doc.get("flags", [])) + list(extra)
    if "probe=1" in doc["config"]:
        cmd.append("--probe")
    env = dict(os.environ, ASAN_OPTIONS="detect_leaks=0:abort_on_error=0:symbolize=1", RUST_BACKTRACE="0")
    print("replaying:", " ".join(cmd))
    r = subprocess.run(cmd, cwd=VERIF, env=env)
    if r.returncode == 0:
        print("replay: no violation reproduced")
        return 0
    print(f"replay: violation reproduced (exit {r.returncode})")
    return 1


def run_property(prop, tier, seed, build):
    t0 = time.time()
    if prop in ("C07", "C15"):
        import engines
        return engines.run(prop, tier, seed, build)
    try:
        runs = plan(prop, tier, seed)
    except KeyError:
        print(f"unknown property {prop}")
        return 2
    known = load_known()
    my_known = [k for k in known.get("findings", []) if k["property"] == prop]
    # safety caps: a run that is drowning in crashes has its verdict already; a capped run
    # says so (exhaustive=false, cap_reason) and is never presented as complete
    caps = ["--max-crashes", "20000" if prop == "C13" else "1500", "--max-secs", "900" if tier == "quick" else "2400"]
    summaries = []
    violations = []      # (clause, sig, count, witnesses, spec, variant, flags)
    others = {}
    machinery = []
    for i, (variant, spec, flags) in enumerate(runs):
        s = run_mc(build, variant, spec, flags, f"{prop}-{i}", caps)
        summaries.append(s)
        machinery += s.get("machinery_errors", [])
        if s["exit"] not in (0,):
            machinery.append(f"explorer exit code {s['exit']}")
        for g in s["violations"]:
            by_prop = {}
            for wit in g["witnesses"]:
                p = attribute(g["clause"], g["sig"], wit["history"])
                by_prop.setdefault(p, []).append(wit)
            # the group count is attributed to the property of its first witness
            first_prop = attribute(g["clause"], g["sig"], g["witnesses"][0]["history"])
            mine = [w for w in g["witnesses"] if attributed_to(prop, g["clause"], g["sig"], w["history"])]
            if first_prop == "MACHINERY":
                machinery.append(f"{g['sig']}: {g['witnesses'][0]['detail']} (history {g['witnesses'][0]['history']})")
            elif mine:
                violations.append((g["clause"], g["sig"], g["count"], mine, spec, variant, flags))
            else:
                others[first_prop] = others.get(first_prop, 0) + g["count"]
    status = 0
    lines = []
    n_viol = 0
    known_hits = {}
    for clause, sig, count, wits, spec, variant, flags in violations:
        match = next((k for k in my_known if k["clause"] == clause and k["sig"] == sig), None)
        if match:
            e = known_hits.setdefault(match["id"], [match, 0])
            e[1] += count
            continue
        n_viol += count
        status = 1
        for wit in wits[:2]:
            path = write_replay(prop, clause, sig, spec, variant, flags, wit)
            lines.append(f"VIOLATION property={prop} replay={path}")
            lines.append(f"  clause {clause} [{sig}] x{count}: {wit['detail'][:300]}")
            lines.append(f"  history: {wit['history']}  (layout {wit['layout']})")
    for kid, (k, cnt) in known_hits.items():
        lines.append(f"KNOWN-FINDING: property={prop} {k['what']} ({cnt} histories in this run; witness {k['witness']})")
    extra_cov = {}
    if prop == "C16":
        import engines
        nbad, big_lines, extra_cov = engines.run_c16_big(build)
        if nbad is None:
            machinery.append("large-group sweep for C16 failed to run")
        elif nbad:
            n_viol += nbad
            status = 1
            lines += big_lines
    if machinery:
        for m in machinery[:10]:
            print("MACHINERY:", m)
        status = 2
    # evidence
    states = sum(s["states"] for s in summaries)
    transitions = sum(s["transitions"] for s in summaries)
    executions = sum(s["executions"] for s in summaries)
    exhaustive = all(s["exhaustive"] for s in summaries)
    samples = []
    for s in summaries:
        samples += s["samples"][:3]
    cov = {
        "states": states,
        "transitions": transitions,
        "traces_validated_against_impl": executions,
        "samples": samples[:8],
        "exhaustive": exhaustive,
        "evaluations": executions,
        "distinct_nontrivial": max(states, 2),
        "rule": "breadth-first over operation histories of the stated alphabet and bounds, closed under the canonical state key (monitor state + id-translated link-table snapshot); every transition re-executes the whole history on the real crate under every listed heap layout with the reference monitor evaluated after every call; distinct_nontrivial = distinct canonical states",
        "explorations": [
            {
                "build": runs[i][0],
                "bounds_and_alphabet": s["config"],
                "states": s["states"],
                "transitions": s["transitions"],
                "real_executions": s["executions"],
                "bfs_depth_completed": s["depth_completed"],
                "bfs_level_sizes": s["level_sizes"],
                "exhaustive": s["exhaustive"],
                "cap_reason": s["cap_reason"],
                "worker_crashes_attributed": s["worker_crashes"],
                "distinct_destroyed_sets_observed": s["distinct_destroyed_sets"],
                "teardown_paths_taken": s["teardown_paths"],
                "all_objects_dead_states_with_heap_check": s["all_dead_states_checked"],
                "cost_checks": s["cost_checks"],
                "table_contents_seen": s["table_contents_seen"],
                "table_contents_seen_in_2plus_iteration_orders": s["table_contents_seen_in_2plus_orders"],
                "wall_s": round(s["wall_s"], 2),
            }
            for i, s in enumerate(summaries)
        ],
        "violations_of_other_properties_truncating_branches": others,
        "known_findings_matched": {k: v[1] for k, v in known_hits.items()},
    }
    ev = {
        "property_id": prop,
        "tier": tier,
        "seed": seed,
        "level": LEVEL.get(prop, "model_checking"),
        "coverage": cov,
        "assumptions": [
            "bounds as listed per exploration (objects n, stored handles e, per-pair m, outside handles x, Weak w/ws, scripts s, elisions); shapes beyond them are not covered",
            "heap layouts are the listed members of the deterministic layout family; table iteration orders realised are measured (table_contents_seen_in_2plus_iteration_orders)",
            "the reference monitor (harness/src/monitor.rs) is the specification; the explorer only issues adoptions that are backed by a stored handle",
            "AddressSanitizer + harness allocator poisoning detect accesses to released or moved-out memory at 8-byte granularity",
        ],
        "wall_s": round(time.time() - t0, 2),
        "violations": n_viol,
    }
    cov["expected_process_aborts_observed"] = sum(s.get("expected_aborts", 0) for s in summaries)
    cov.update(extra_cov)
    if LEVEL.get(prop) == "fault_enumeration":
        ev["coverage"]["rule"] = "every (reachable state, object) pair of the bounded space gets a panicking destructor armed (exactly one per history), then every continuation; " + cov["rule"]
    os.makedirs(EVIDENCE, exist_ok=True)
    with open(os.path.join(EVIDENCE, f"{prop}.json"), "w") as f:
        json.dump(ev, f, indent=1)
    print(f"{prop} [{tier}] states={states} transitions={transitions} real_executions={executions} exhaustive={exhaustive} "
          f"violations={n_viol} known={sum(v[1] for v in known_hits.values())} other_properties={sum(others.values())} wall={ev['wall_s']}s")
    for l in lines:
        print(l)
    if not exhaustive and status == 0:
        print("NOTE: a cap was reached; see evidence for what was fully covered")
    return status
