//! The payload type stored in every `Rc` the explorer creates, and the event
//! log its destructor writes to.

use std::cell::{Cell, RefCell, UnsafeCell};
use std::mem::ManuallyDrop;

use cactusref::{Rc, Weak};

pub const MAXN: usize = 5;
const MAGIC: u64 = 0x5ca1_ab1e_0ddb_a11e;
const DEAD: u64 = 0xdead_dead_dead_dead;

/// Something that happened inside a library call, in program order.
#[derive(Clone, Copy, PartialEq, Eq, Debug)]
pub enum Ev {
    /// the destructor of object `.0`'s value started; `.1` = canary was intact
    DtorStart(u8, bool),
    /// the dying value of `.0` drops a strong handle it stored to `.1`
    Release(u8, u8),
    /// the dying value of `.0` drops a Weak handle it stored to `.1`
    WRelease(u8, u8),
    /// the release announced by the previous Release/WRelease has returned
    ReleaseDone,
    /// destructor body (script) of `.0` finished; field drops follow
    DtorBody(u8),
    /// the destructor script of `.0` performed (or skipped) its action; `.2` = result code
    Script(u8, crate::ops::Script, u8),
    /// a Node was cloned by `make_mut`: source id, new id
    Cloned(u8, u8),
}

const EVCAP: usize = 1024;

pub struct Log {
    pub ev: [Ev; EVCAP],
    pub len: usize,
    pub overflow: bool,
}

struct G<T>(UnsafeCell<T>);
unsafe impl<T> Sync for G<T> {}

static LOG: G<Log> = G(UnsafeCell::new(Log {
    ev: [Ev::ReleaseDone; EVCAP],
    len: 0,
    overflow: false,
}));

pub fn log() -> &'static mut Log {
    unsafe { &mut *LOG.0.get() }
}

#[inline]
pub fn emit(e: Ev) {
    let l = log();
    if l.len < EVCAP {
        l.ev[l.len] = e;
        l.len += 1;
    } else {
        l.overflow = true;
    }
}

/// A strong handle stored inside a value. Dropping it logs the release.
pub struct Slot {
    pub owner: u8,
    pub target: u8,
    h: ManuallyDrop<Rc<Node>>,
}

impl Slot {
    pub fn new(owner: u8, target: u8, h: Rc<Node>) -> Slot {
        Slot {
            owner,
            target,
            h: ManuallyDrop::new(h),
        }
    }
    pub fn handle(&self) -> &Rc<Node> {
        &self.h
    }
    pub fn into_handle(mut self) -> Rc<Node> {
        let h = unsafe { ManuallyDrop::take(&mut self.h) };
        std::mem::forget(self);
        h
    }
}

impl Drop for Slot {
    fn drop(&mut self) {
        emit(Ev::Release(self.owner, self.target));
        unsafe { ManuallyDrop::drop(&mut self.h) };
        emit(Ev::ReleaseDone);
    }
}

/// A Weak handle stored inside a value.
pub struct WSlot {
    pub owner: u8,
    pub target: u8,
    w: ManuallyDrop<Weak<Node>>,
}

impl WSlot {
    pub fn new(owner: u8, target: u8, w: Weak<Node>) -> WSlot {
        WSlot {
            owner,
            target,
            w: ManuallyDrop::new(w),
        }
    }
    pub fn weak(&self) -> &Weak<Node> {
        &self.w
    }
    pub fn into_weak(mut self) -> Weak<Node> {
        let w = unsafe { ManuallyDrop::take(&mut self.w) };
        std::mem::forget(self);
        w
    }
}

impl Drop for WSlot {
    fn drop(&mut self) {
        emit(Ev::WRelease(self.owner, self.target));
        unsafe { ManuallyDrop::drop(&mut self.w) };
        emit(Ev::ReleaseDone);
    }
}

pub struct Node {
    pub id: u8,
    canary: Cell<u64>,
    pub slots: RefCell<Vec<Slot>>,
    pub wslots: RefCell<Vec<WSlot>>,
}

/// The id the next `Node::clone` (only `make_mut` clones nodes) will give to the copy.
static NEXT_CLONE_ID: G<Cell<u8>> = G(UnsafeCell::new(Cell::new(0)));

pub fn set_next_clone_id(id: u8) {
    unsafe { (*NEXT_CLONE_ID.0.get()).set(id) }
}

/// Destructor hook: called from `Node::drop` with the id of the dying object.
/// Installed by the script interpreter (world.rs).
static DTOR_HOOK: G<Cell<Option<fn(&Node)>>> = G(UnsafeCell::new(Cell::new(None)));

pub fn set_dtor_hook(f: Option<fn(&Node)>) {
    unsafe { (*DTOR_HOOK.0.get()).set(f) }
}

impl Node {
    pub fn new(id: u8) -> Node {
        Node {
            id,
            canary: Cell::new(MAGIC ^ u64::from(id)),
            slots: RefCell::new(Vec::new()),
            wslots: RefCell::new(Vec::new()),
        }
    }
    /// the program gives the value (which it owns exclusively) a new label
    pub fn relabel(&mut self, id: u8) {
        self.id = id;
        self.canary.set(MAGIC ^ u64::from(id));
        for s in self.slots.get_mut().iter_mut() {
            s.owner = id;
        }
        for s in self.wslots.get_mut().iter_mut() {
            s.owner = id;
        }
    }
    pub fn intact(&self, id: u8) -> bool {
        self.id == id && self.canary.get() == MAGIC ^ u64::from(id)
    }
}

impl Clone for Node {
    fn clone(&self) -> Node {
        let id = unsafe { (*NEXT_CLONE_ID.0.get()).get() };
        emit(Ev::Cloned(self.id, id));
        let slots = self
            .slots
            .borrow()
            .iter()
            .map(|s| Slot::new(id, s.target, Rc::clone(s.handle())))
            .collect();
        let wslots = self
            .wslots
            .borrow()
            .iter()
            .map(|s| WSlot::new(id, s.target, Weak::clone(s.weak())))
            .collect();
        Node {
            id,
            canary: Cell::new(MAGIC ^ u64::from(id)),
            slots: RefCell::new(slots),
            wslots: RefCell::new(wslots),
        }
    }
}

impl Drop for Node {
    fn drop(&mut self) {
        let ok = self.canary.get() == MAGIC ^ u64::from(self.id);
        emit(Ev::DtorStart(self.id, ok));
        self.canary.set(DEAD);
        if let Some(f) = unsafe { (*DTOR_HOOK.0.get()).get() } {
            f(self);
        }
        emit(Ev::DtorBody(self.id));
        // fields are dropped next, in declaration order: every stored strong
        // handle (logging Release), then every stored Weak (logging WRelease)
    }
}
