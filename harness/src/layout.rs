//! Heap layouts: which arena slot the i-th allocation of an execution gets.
//!
//! The production hasher (FxHash over the allocation address) is never
//! replaced; a layout changes the addresses, and with them the iteration order
//! of every link table, of the trace result and of the visited set.

use crate::galloc::SLOTS;

pub const LAYOUT_LEN: usize = 12;

/// Deterministic family: layout 0 is "consecutive slots", layout 1 is
/// "reverse", the others are pseudo-random injective assignments (64-bit LCG
/// seeded by the index).
pub fn layout(index: u16) -> [usize; LAYOUT_LEN] {
    let mut out = [0usize; LAYOUT_LEN];
    match index {
        0 => {
            for (i, o) in out.iter_mut().enumerate() {
                *o = i;
            }
        }
        1 => {
            for (i, o) in out.iter_mut().enumerate() {
                *o = LAYOUT_LEN - 1 - i;
            }
        }
        _ => {
            let mut x: u64 = 0x9e37_79b9_7f4a_7c15 ^ (u64::from(index) << 32) ^ u64::from(index);
            let mut used = [false; SLOTS];
            for o in out.iter_mut() {
                loop {
                    x = x.wrapping_mul(6364136223846793005).wrapping_add(1442695040888963407);
                    let s = ((x >> 33) as usize) % SLOTS;
                    if !used[s] {
                        used[s] = true;
                        *o = s;
                        break;
                    }
                }
            }
        }
    }
    out
}
