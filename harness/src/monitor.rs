//! The reference monitor: a deliberately boring model of what the program
//! holds (handles, stored handles, recorded adoptions) that is fed the calls
//! the explorer makes and the events the payload destructors emit, and that
//! evaluates the oracle clauses K1..K16 of DESIGN.md section 5.3.
//!
//! The monitor never predicts *which* unreachable objects the library
//! collects; it checks every observed destruction against a lower bound (K3:
//! what the properties say must die) and an upper bound (K1: nothing reachable
//! may die, K2: nothing dies twice) and then adopts it.

use crate::ops::{Config, Op, Script, StoreMode, TakeMode};
use crate::payload::{Ev, MAXN};

pub const MAXS: usize = 8;

#[derive(Clone, Copy, PartialEq, Eq, Debug, Hash)]
pub enum Status {
    Absent,
    Live,
    /// the value's destructor has run (or at least started)
    Destroyed,
    /// try_unwrap moved the value out; the harness holds it
    Unwrapped,
    /// make_mut moved the value into another allocation
    Stolen,
}

#[derive(Clone, Copy, PartialEq, Eq, Debug, Hash, Default)]
pub struct Small {
    pub len: u8,
    pub v: [u8; MAXS],
}

impl Small {
    pub fn push(&mut self, x: u8) {
        assert!((self.len as usize) < MAXS, "monitor slot list overflow");
        self.v[self.len as usize] = x;
        self.len += 1;
    }
    pub fn pop(&mut self) -> Option<u8> {
        if self.len == 0 {
            None
        } else {
            self.len -= 1;
            Some(self.v[self.len as usize])
        }
    }
    pub fn as_slice(&self) -> &[u8] {
        &self.v[..self.len as usize]
    }
    pub fn count(&self, x: u8) -> u8 {
        self.as_slice().iter().filter(|&&y| y == x).count() as u8
    }
    /// remove the last occurrence of x; returns its index
    pub fn remove_last(&mut self, x: u8) -> Option<usize> {
        let idx = self.as_slice().iter().rposition(|&y| y == x)?;
        self.remove_at(idx);
        Some(idx)
    }
    pub fn remove_at(&mut self, idx: usize) {
        let n = self.len as usize;
        for i in idx..n - 1 {
            self.v[i] = self.v[i + 1];
        }
        self.v[n - 1] = 0;
        self.len -= 1;
    }
    pub fn remove_first(&mut self, x: u8) -> bool {
        if let Some(idx) = self.as_slice().iter().position(|&y| y == x) {
            self.remove_at(idx);
            true
        } else {
            false
        }
    }
    pub fn clear(&mut self) {
        *self = Small::default();
    }
}

#[derive(Clone, Debug, PartialEq, Eq)]
pub struct Viol {
    /// oracle clause, "K1".."K16", or "MACHINERY"
    pub clause: &'static str,
    /// stable, address-free signature used to match known findings
    pub sig: String,
    pub detail: String,
}

pub type Set = u8; // bitset over object ids

/// fixed-capacity byte buffer (no heap)
pub struct Buf<const N: usize> {
    pub len: usize,
    pub b: [u8; N],
}

impl<const N: usize> Buf<N> {
    pub fn new() -> Self {
        Buf { len: 0, b: [0; N] }
    }
    #[inline]
    pub fn push(&mut self, x: u8) {
        assert!(self.len < N, "key buffer overflow");
        self.b[self.len] = x;
        self.len += 1;
    }
    pub fn extend_from_slice(&mut self, xs: &[u8]) {
        for &x in xs {
            self.push(x);
        }
    }
    pub fn as_slice(&self) -> &[u8] {
        &self.b[..self.len]
    }
}

fn bit(o: u8) -> Set {
    1 << o
}

#[derive(Clone, Debug)]
pub struct Mon {
    pub n: u8,
    pub status: [Status; MAXN],
    pub ext: [u8; MAXN],
    pub extw: [u8; MAXN],
    pub slots: [Small; MAXN],
    pub wslots: [Small; MAXN],
    pub rec: [[u8; MAXN]; MAXN],
    pub lp: [u8; MAXN],
    pub dtor: [u8; MAXN],
    pub armed: [Option<Script>; MAXN],
    pub elided: u8,
    /// records > handles held has been true at some point (only elision can do that)
    pub pre_broken: bool,
    /// a panic unwound out of a teardown: leaks are permitted from here on (C11)
    pub panicked: bool,
    /// objects whose allocation was given up by try_unwrap / make_mut while peers had records (C12)
    pub consumed_with_links: Set,
    /// objects that have had a recorded adoption (as owner or target) at some point
    pub ever_linked: Set,
    /// put `ever_linked` into the canonical key (C14: an object that was adopted and
    /// fully unadopted again has the same records as one that never was, but its
    /// table has a past)
    pub key_includes_past: bool,
    // ---- per outermost call ----
    pub must_die: Set,
    pub died_now: Set,
    /// objects for which an in-destructor Weak::upgrade answered None during this call
    pub upgrade_none: Set,
    /// some record exceeded the handles held when the running call started (cause predicate of the C13 finding)
    pub stale_at_start: bool,
    /// a dry-run CloneOwn script met a handle to a dead (or dying) object (C16)
    pub noted_dead_clone: bool,
    pub viol: Vec<Viol>,
}

impl Mon {
    pub fn new() -> Mon {
        Mon {
            n: 0,
            status: [Status::Absent; MAXN],
            ext: [0; MAXN],
            extw: [0; MAXN],
            slots: [Small::default(); MAXN],
            wslots: [Small::default(); MAXN],
            rec: [[0; MAXN]; MAXN],
            lp: [0; MAXN],
            dtor: [0; MAXN],
            armed: [None; MAXN],
            elided: 0,
            pre_broken: false,
            panicked: false,
            consumed_with_links: 0,
            ever_linked: 0,
            key_includes_past: false,
            must_die: 0,
            died_now: 0,
            upgrade_none: 0,
            stale_at_start: false,
            noted_dead_clone: false,
            viol: Vec::new(),
        }
    }

    pub fn ids(&self) -> std::ops::Range<u8> {
        0..self.n
    }

    pub fn live(&self, o: u8) -> bool {
        self.status[o as usize] == Status::Live
    }

    /// does the value of `v` still exist as a whole (not being torn down)?
    pub fn holds(&self, v: u8) -> bool {
        matches!(self.status[v as usize], Status::Live | Status::Unwrapped)
    }

    /// strong handles to o stored in the value of p. The slot list of a value
    /// whose destructor has started shrinks as its field drops release the
    /// handles, so what is left in it is exactly what it still holds.
    pub fn held(&self, p: u8, o: u8) -> u8 {
        self.slots[p as usize].count(o)
    }

    pub fn strong(&self, o: u8) -> u32 {
        let mut s = u32::from(self.ext[o as usize]);
        for p in self.ids() {
            s += u32::from(self.held(p, o));
        }
        s
    }

    pub fn weak(&self, o: u8) -> u32 {
        let mut s = u32::from(self.extw[o as usize]);
        for p in self.ids() {
            s += u32::from(self.wslots[p as usize].count(o));
        }
        s
    }

    pub fn stored_total(&self) -> u32 {
        self.ids().map(|p| u32::from(self.slots[p as usize].len)).sum()
    }

    pub fn wstored_total(&self) -> u32 {
        self.ids().map(|p| u32::from(self.wslots[p as usize].len)).sum()
    }

    pub fn armed_total(&self) -> u8 {
        self.armed.iter().filter(|a| a.is_some()).count() as u8
    }

    /// objects reachable from handles the program holds (outside handles and
    /// values it unwrapped), through handles stored in existing values
    pub fn reach(&self) -> Set {
        self.reach_from(false)
    }

    /// like `reach`, but objects the program holds only a Weak handle to (held
    /// outside) also count as roots while they are alive: `Weak::upgrade` gives
    /// the program a strong handle to them again
    pub fn reach_incl_upgradable(&self) -> Set {
        self.reach_from(true)
    }

    fn reach_from(&self, weak_roots: bool) -> Set {
        let mut seen: Set = 0;
        let mut stack = Small::default();
        for o in self.ids() {
            // a Weak can only be upgraded while strong handles to the object exist
            if (self.ext[o as usize] > 0 || (weak_roots && self.extw[o as usize] > 0 && self.strong(o) > 0)) && self.live(o) {
                if seen & bit(o) == 0 {
                    seen |= bit(o);
                    stack.push(o);
                }
            }
            if self.status[o as usize] == Status::Unwrapped {
                // the harness holds the value itself
                for &t in self.slots[o as usize].as_slice() {
                    if self.live(t) && seen & bit(t) == 0 {
                        seen |= bit(t);
                        stack.push(t);
                    }
                }
            }
        }
        while let Some(p) = stack.pop() {
            for &t in self.slots[p as usize].as_slice() {
                if self.live(t) && seen & bit(t) == 0 {
                    seen |= bit(t);
                    stack.push(t);
                }
            }
        }
        seen
    }

    pub fn recorded(&self, p: u8, o: u8) -> u32 {
        u32::from(self.rec[p as usize][o as usize]) + if p == o { u32::from(self.lp[p as usize]) } else { 0 }
    }

    /// the bookkeeping precondition: never more records than handles held
    pub fn pre_holds_now(&self) -> bool {
        for p in self.ids() {
            for o in self.ids() {
                if self.recorded(p, o) > u32::from(self.held(p, o)) {
                    return false;
                }
            }
        }
        true
    }

    pub fn has_links(&self, o: u8) -> bool {
        if self.lp[o as usize] > 0 {
            return true;
        }
        self.ids().any(|p| self.rec[o as usize][p as usize] > 0 || self.rec[p as usize][o as usize] > 0)
    }

    fn purge_ledger(&mut self, d: u8) {
        for p in 0..MAXN {
            self.rec[p][d as usize] = 0;
            self.rec[d as usize][p] = 0;
        }
        self.lp[d as usize] = 0;
    }

    fn v(&mut self, clause: &'static str, sig: String, detail: String) {
        self.viol.push(Viol { clause, sig, detail });
    }

    /// closure of x under recorded adoptions (owner -> target), live objects only
    pub fn closure(&self, x: u8) -> Set {
        let mut s: Set = bit(x);
        let mut stack = Small::default();
        stack.push(x);
        while let Some(p) = stack.pop() {
            for o in self.ids() {
                if self.rec[p as usize][o as usize] > 0 && self.live(o) && s & bit(o) == 0 {
                    s |= bit(o);
                    stack.push(o);
                }
            }
        }
        s
    }

    /// K3 lower bound, evaluated for one "a strong handle to x was dropped" event
    /// in the state right after that drop.
    pub fn on_drop_event(&mut self, x: u8) {
        if !self.live(x) {
            return; // handle to an already destroyed object: inert
        }
        if self.strong(x) == 0 {
            self.must_die |= bit(x);
            return;
        }
        if self.pre_broken || !self.pre_holds_now() {
            return;
        }
        let s = self.closure(x);
        for o in self.ids() {
            if s & bit(o) == 0 {
                continue;
            }
            let mut internal = u32::from(self.lp[o as usize]);
            for p in self.ids() {
                if s & bit(p) != 0 {
                    internal += u32::from(self.rec[p as usize][o as usize]);
                }
            }
            if self.strong(o) != internal {
                return;
            }
        }
        self.must_die |= s;
    }

    pub fn begin_call(&mut self) {
        self.must_die = 0;
        self.died_now = 0;
        self.upgrade_none = 0;
        self.stale_at_start = !self.pre_holds_now();
    }

    /// Feed one event logged during a library call.
    pub fn process_event(&mut self, e: Ev) {
        match e {
            Ev::DtorStart(d, canary_ok) => self.on_dtor_start(d, canary_ok),
            Ev::Release(d, t) => {
                if !self.slots[d as usize].remove_first(t) {
                    self.v("MACHINERY", "release-of-unknown-slot".into(), format!("value {d} released a handle to {t} the monitor did not know"));
                }
                self.on_drop_event(t);
            }
            Ev::WRelease(d, t) => {
                if !self.wslots[d as usize].remove_first(t) {
                    self.v("MACHINERY", "wrelease-of-unknown-slot".into(), format!("value {d} released a Weak to {t} the monitor did not know"));
                }
            }
            Ev::ReleaseDone | Ev::DtorBody(_) | Ev::Cloned(..) | Ev::Script(..) => {}
        }
    }

    fn on_dtor_start(&mut self, d: u8, canary_ok: bool) {
        let di = d as usize;
        self.dtor[di] += 1;
        if self.dtor[di] > 1 {
            self.v("K2", "destructor-ran-twice".into(), format!("destructor of object {d} ran {} times", self.dtor[di]));
        }
        if !canary_ok {
            self.v("K2", "destructor-on-corrupt-value".into(), format!("destructor of object {d} saw a corrupted value"));
        }
        match self.status[di] {
            Status::Live => {
                // K1 / K13: is d reachable from what the program holds, right now?
                // C13 speaks of what "the program can still reach": after an elided unadopt
                // that includes objects reachable by upgrading a Weak the program holds
                let reach = self.reach();
                if reach & bit(d) != 0 {
                    let stale = self.stale_at_start || self.stale_record_involved(d);
                    if !self.pre_broken {
                        self.v(
                            "K1",
                            format!("reachable-object-destroyed;loopback={}", self.loop_in_closure(d) as u8),
                            format!("object {d} was destroyed while reachable from held handles (reach={:#b})", reach),
                        );
                    } else {
                        self.v(
                            "K13",
                            format!("reachable-object-destroyed-after-elided-unadopt;stale={}", stale as u8),
                            format!("object {d} was destroyed while reachable; an unadopt was elided earlier"),
                        );
                    }
                }
                self.status[di] = Status::Destroyed;
                self.died_now |= bit(d);
                self.purge_ledger(d);
            }
            Status::Unwrapped => {
                // the harness dropped the unwrapped value
                self.status[di] = Status::Destroyed;
                self.died_now |= bit(d);
            }
            Status::Destroyed => { /* already reported as ran-twice */ }
            Status::Absent | Status::Stolen => {
                self.v("K2", "destructor-of-nonexistent-value".into(), format!("destructor ran for object {d} whose allocation holds no value"));
            }
        }
    }

    /// is some record owner->target stale (more records than handles) on the
    /// recorded path that leads to d? (cause predicate of the C13 finding)
    fn stale_record_involved(&self, _d: u8) -> bool {
        for p in self.ids() {
            for o in self.ids() {
                if self.recorded(p, o) > u32::from(self.held(p, o)) {
                    return true;
                }
            }
        }
        false
    }

    fn loop_in_closure(&self, d: u8) -> bool {
        let s = self.closure(d);
        self.ids().any(|o| s & bit(o) != 0 && self.lp[o as usize] > 0)
    }

    /// K3 at the end of the outermost call
    pub fn end_call(&mut self) {
        for o in self.ids() {
            if self.upgrade_none & bit(o) != 0 && self.live(o) {
                self.v("K5", "upgrade-in-destructor-refused-survivor".into(), format!("Weak::upgrade inside a destructor returned None for object {o}, which is still alive after the call"));
            }
        }
        if self.pre_broken {
            // C13 "no later operation touches freed memory": an object destroyed by this
            // call must not be left behind in the value of an object that is still alive
            // (or in the program's own hands). Such a dangling handle is what a later
            // Weak::upgrade of the holder, or the holder's own teardown, runs into.
            for d in self.ids() {
                if self.died_now & bit(d) == 0 || self.status[d as usize] != Status::Destroyed {
                    continue;
                }
                let held_by_live = self.ids().any(|p| p != d && self.live(p) && self.slots[p as usize].count(d) > 0);
                if held_by_live || self.ext[d as usize] > 0 {
                    let stale = self.stale_at_start;
                    self.v(
                        "K13",
                        format!("reachable-object-destroyed-after-elided-unadopt;stale={}", stale as u8),
                        format!("object {d} was destroyed although a live object's value (or the program) still holds a strong handle to it; an unadopt was elided earlier"),
                    );
                    break;
                }
            }
        }
        if self.panicked {
            return; // C11: memory of an interrupted teardown may leak
        }
        let missing = self.must_die & !self.died_now;
        let mut really_missing: Set = 0;
        for o in self.ids() {
            if missing & bit(o) != 0 && self.status[o as usize] == Status::Live {
                really_missing |= bit(o);
            }
        }
        if really_missing != 0 {
            let lb = self.ids().any(|o| really_missing & bit(o) != 0 && self.lp_in_group(o));
            let zero = self.ids().any(|o| really_missing & bit(o) != 0 && self.strong(o) == 0);
            self.v(
                "K3",
                format!("orphaned-group-not-destroyed;loopback={};zero_count={}", lb as u8, zero as u8),
                format!("objects {:#b} had to be destroyed by this call (must={:#b}, destroyed={:#b})", really_missing, self.must_die, self.died_now),
            );
        }
    }

    fn lp_in_group(&self, o: u8) -> bool {
        let s = self.closure(o);
        self.ids().any(|q| s & bit(q) != 0 && self.lp[q as usize] > 0)
    }

    // ------------------------------------------------------------------
    // direct effects of explorer operations (before the events of the call)
    // ------------------------------------------------------------------

    pub fn new_object(&mut self) -> u8 {
        let id = self.n;
        self.status[id as usize] = Status::Live;
        self.ext[id as usize] = 1;
        self.n += 1;
        id
    }

    pub fn apply_store(&mut self, p: u8, o: u8, m: StoreMode) {
        self.ext[o as usize] -= 1;
        self.slots[p as usize].push(o);
        match m {
            StoreMode::Plain => {}
            StoreMode::Adopt | StoreMode::StoreThenAdopt => {
                self.rec[p as usize][o as usize] += 1;
                self.ever_linked |= bit(p) | bit(o);
            }
            StoreMode::SameRef => {
                self.lp[p as usize] += 1;
                self.ever_linked |= bit(p);
            }
        }
    }

    pub fn apply_take(&mut self, p: u8, o: u8, m: TakeMode) -> usize {
        let idx = self.slots[p as usize].remove_last(o).expect("take of a handle the monitor does not know");
        self.ext[o as usize] += 1;
        match m {
            TakeMode::Unadopt => self.apply_unadopt(p, o, false),
            TakeMode::SameRef => self.apply_unadopt(p, o, true),
            TakeMode::Keep => {}
            TakeMode::Elide => {
                self.elided += 1;
                self.pre_broken = true;
            }
        }
        idx
    }

    pub fn apply_unadopt(&mut self, p: u8, o: u8, sameref: bool) {
        if sameref {
            let l = &mut self.lp[p as usize];
            *l = l.saturating_sub(1);
        } else {
            let r = &mut self.rec[p as usize][o as usize];
            *r = r.saturating_sub(1);
        }
    }

    /// the allocation of o stops being a live object without its destructor
    /// running (try_unwrap / make_mut steal)
    pub fn give_up_allocation(&mut self, o: u8, new_status: Status) {
        if self.has_links(o) {
            self.consumed_with_links |= bit(o);
        }
        self.status[o as usize] = new_status;
        self.ext[o as usize] = 0;
        self.purge_ledger(o);
    }

    // ------------------------------------------------------------------
    // enabled operations
    // ------------------------------------------------------------------

    pub fn enabled(&self, c: &Config) -> Vec<Op> {
        let mut out = Vec::new();
        let reach = self.reach();
        let stored = self.stored_total();
        let wstored = self.wstored_total();
        if self.n < c.n {
            out.push(Op::New);
        }
        for o in self.ids() {
            if self.live(o) && reach & bit(o) != 0 && self.ext[o as usize] < c.x {
                out.push(Op::Clone(o));
            }
        }
        for o in self.ids() {
            if self.ext[o as usize] >= 1 {
                out.push(Op::Drop(o));
            }
        }
        for p in self.ids() {
            if !self.live(p) || self.ext[p as usize] < 1 {
                continue;
            }
            for o in self.ids() {
                if !self.live(o) {
                    continue;
                }
                let need = 1 + u8::from(p == o);
                if self.ext[o as usize] >= need
                    && stored < u32::from(c.e)
                    && self.slots[p as usize].count(o) < c.m
                    && (self.slots[p as usize].len as usize) < MAXS
                {
                    if c.plain_edges {
                        out.push(Op::Store(p, o, StoreMode::Plain));
                    }
                    out.push(Op::Store(p, o, StoreMode::Adopt));
                    if c.late_adopt {
                        out.push(Op::Store(p, o, StoreMode::StoreThenAdopt));
                    }
                    if p == o && c.sameref {
                        out.push(Op::Store(p, o, StoreMode::SameRef));
                    }
                }
            }
        }
        for p in self.ids() {
            if !self.live(p) || self.ext[p as usize] < 1 {
                continue;
            }
            for o in self.ids() {
                let pair = self.slots[p as usize].count(o);
                if pair == 0 || self.ext[o as usize] > c.x || !self.live(o) {
                    continue;
                }
                let recd = self.recorded(p, o);
                if self.rec[p as usize][o as usize] >= 1 {
                    out.push(Op::Take(p, o, TakeMode::Unadopt));
                }
                if p == o && self.lp[p as usize] >= 1 && c.sameref {
                    out.push(Op::Take(p, o, TakeMode::SameRef));
                }
                if recd <= u32::from(pair) - 1 {
                    if c.keep_take {
                        out.push(Op::Take(p, o, TakeMode::Keep));
                    }
                } else if self.elided < c.elide {
                    out.push(Op::Take(p, o, TakeMode::Elide));
                }
            }
        }
        if c.bare_unadopt {
            for p in self.ids() {
                if !self.live(p) || self.ext[p as usize] < 1 {
                    continue;
                }
                for o in self.ids() {
                    if !self.live(o) {
                        continue;
                    }
                    if self.ext[o as usize] >= 1 + u8::from(p == o) {
                        out.push(Op::Unadopt(p, o, false));
                    }
                }
                if c.sameref {
                    out.push(Op::Unadopt(p, p, true));
                }
            }
        }
        if c.weak_ops {
            for o in self.ids() {
                let w = self.weak(o);
                if self.live(o) && self.ext[o as usize] >= 1 && w < u32::from(c.w) {
                    out.push(Op::Downgrade(o));
                }
                if self.extw[o as usize] >= 1 {
                    if self.ext[o as usize] < c.x {
                        out.push(Op::Upgrade(o));
                    }
                    if w < u32::from(c.w) {
                        out.push(Op::CloneWeak(o));
                    }
                    out.push(Op::DropWeak(o));
                    for p in self.ids() {
                        if self.live(p) && self.ext[p as usize] >= 1 && wstored < u32::from(c.ws) && (self.wslots[p as usize].len as usize) < MAXS {
                            out.push(Op::StoreWeak(p, o));
                        }
                    }
                }
            }
            for p in self.ids() {
                if self.live(p) && self.ext[p as usize] >= 1 {
                    for o in self.ids() {
                        if self.wslots[p as usize].count(o) > 0 {
                            out.push(Op::TakeWeak(p, o));
                        }
                    }
                }
            }
        }
        if c.consuming_ops {
            for o in self.ids() {
                if self.status[o as usize] == Status::Unwrapped {
                    out.push(Op::DropUnwrapped(o));
                }
                if !self.live(o) || self.ext[o as usize] < 1 {
                    continue;
                }
                out.push(Op::TryUnwrap(o));
                let unique = self.strong(o) == 1 && self.weak(o) == 0;
                if unique || self.n < c.n {
                    out.push(Op::MakeMut(o));
                }
                out.push(Op::GetMut(o));
                out.push(Op::RawRoundTrip(o));
                if self.ext[o as usize] < c.x {
                    out.push(Op::IncStrong(o));
                }
                out.push(Op::DecStrong(o));
            }
        }
        if self.armed_total() < c.s {
            for o in self.ids() {
                if !self.live(o) || self.armed[o as usize].is_some() {
                    continue;
                }
                for s in self.scripts_for(o, c) {
                    out.push(Op::Arm(o, s));
                }
            }
        }
        out
    }

    fn scripts_for(&self, o: u8, c: &Config) -> Vec<Script> {
        let mut v = Vec::new();
        if c.scripts_api {
            if self.n < c.n {
                v.push(Script::New);
            }
            if c.weak_ops {
                // a Weak to the dying object itself: try to upgrade it (must be None), drop it
                v.push(Script::UpgradeRoot(o));
                v.push(Script::DropWeakRoot(o));
            }
            for t in self.ids() {
                if t == o || !self.live(t) {
                    continue;
                }
                v.push(Script::CloneRoot(t));
                v.push(Script::DropRoot(t));
                v.push(Script::Downgrade(t));
                if c.weak_ops {
                    v.push(Script::UpgradeRoot(t));
                    v.push(Script::DropWeakRoot(t));
                }
                for b in self.ids() {
                    if b == o || !self.live(b) {
                        continue;
                    }
                    v.push(Script::StoreAdopt(t, b));
                    v.push(Script::TakeUnadopt(t, b));
                    v.push(Script::Unadopt(t, b));
                }
            }
        }
        if c.scripts_upgrade_own {
            for k in 0..self.wslots[o as usize].len.max(1) {
                v.push(Script::UpgradeOwn(k));
            }
            // also ask about a Weak to itself held outside
            v.push(Script::UpgradeRoot(o));
        }
        if c.scripts_panic {
            v.push(Script::Panic);
        }
        if c.scripts_dead_handle {
            for k in 0..self.slots[o as usize].len {
                v.push(Script::DropOwn(k));
                v.push(Script::CloneOwn(k));
            }
        }
        v
    }

    // ------------------------------------------------------------------
    // canonical key
    // ------------------------------------------------------------------

    pub fn key_bytes<const N: usize>(&self, out: &mut Buf<N>) {
        out.push(self.n);
        for o in 0..self.n as usize {
            out.push(match self.status[o] {
                Status::Absent => 0,
                Status::Live => 1,
                Status::Destroyed => 2,
                Status::Unwrapped => 3,
                Status::Stolen => 4,
            });
            out.push(self.ext[o]);
            out.push(self.extw[o]);
            out.push(self.dtor[o]);
            out.push(self.slots[o].len);
            out.extend_from_slice(self.slots[o].as_slice());
            out.push(self.wslots[o].len);
            out.extend_from_slice(self.wslots[o].as_slice());
            out.extend_from_slice(&self.rec[o][..self.n as usize]);
            out.push(self.lp[o]);
            match self.armed[o] {
                None => out.push(0),
                Some(s) => {
                    out.push(1);
                    out.extend_from_slice(&s.code());
                }
            }
        }
        out.push(self.elided);
        out.push(self.pre_broken as u8);
        out.push(self.panicked as u8);
        out.push(self.consumed_with_links);
        if self.key_includes_past {
            out.push(self.ever_linked);
        }
    }
}
