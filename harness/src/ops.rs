//! Operation alphabet, exploration bounds, history (de)serialisation.

use std::fmt;

#[derive(Clone, Copy, PartialEq, Eq, Debug, Hash, PartialOrd, Ord)]
pub enum StoreMode {
    /// the handle is stored without recording an adoption
    Plain,
    /// `adopt_unchecked(&owner, &handle)` then store the handle
    Adopt,
    /// store the handle first, then `adopt_unchecked(&owner, &stored_handle)` (the README's other order)
    StoreThenAdopt,
    /// owner == target only: `adopt_unchecked(&h, &h)` through the *same reference*, then store another handle
    SameRef,
}

#[derive(Clone, Copy, PartialEq, Eq, Debug, Hash, PartialOrd, Ord)]
pub enum TakeMode {
    /// remove the handle, `unadopt(&owner, &handle)`
    Unadopt,
    /// owner == target only: remove the handle, `unadopt(&h, &h)` through the same reference
    SameRef,
    /// remove a handle that was not recorded (records stay <= handles held)
    Keep,
    /// remove a recorded handle and do NOT call unadopt (C13 only)
    Elide,
}

/// What an armed destructor does (C10/C11/C16). Targets are object ids.
#[derive(Clone, Copy, PartialEq, Eq, Debug, Hash, PartialOrd, Ord)]
pub enum Script {
    /// `Rc::new` + keep the handle outside
    New,
    /// clone an outside handle to t
    CloneRoot(u8),
    /// drop an outside handle to t (may start a nested collection)
    DropRoot(u8),
    /// adopt + store: move an outside handle to b into a's value (a, b held outside)
    StoreAdopt(u8, u8),
    /// take a recorded handle to b out of a's value and unadopt it
    TakeUnadopt(u8, u8),
    /// bare unadopt(a, b)
    Unadopt(u8, u8),
    /// downgrade an outside handle to t and keep the Weak outside
    Downgrade(u8),
    /// upgrade an outside Weak to t; keep the result if Some
    UpgradeRoot(u8),
    /// drop an outside Weak to t (possibly the last one to an object that is being destroyed)
    DropWeakRoot(u8),
    /// upgrade the k-th Weak stored in the dying value itself (C05)
    UpgradeOwn(u8),
    /// panic with a recognisable payload (C11)
    Panic,
    /// clone the k-th strong handle stored in the dying value (C16; child process only)
    CloneOwn(u8),
    /// drop the k-th strong handle stored in the dying value explicitly, before field drop (C16)
    DropOwn(u8),
}

#[derive(Clone, Copy, PartialEq, Eq, Debug, Hash, PartialOrd, Ord)]
pub enum Op {
    New,
    Clone(u8),
    Drop(u8),
    Store(u8, u8, StoreMode),
    Take(u8, u8, TakeMode),
    /// bare unadopt(owner, target); `true` = through the same reference (owner == target)
    Unadopt(u8, u8, bool),
    Downgrade(u8),
    /// upgrade an outside Weak and keep the strong handle
    Upgrade(u8),
    CloneWeak(u8),
    DropWeak(u8),
    /// move an outside Weak to `.1` into the value of `.0`
    StoreWeak(u8, u8),
    /// take the last Weak to `.1` stored in `.0` back out
    TakeWeak(u8, u8),
    TryUnwrap(u8),
    /// drop the value obtained by an earlier try_unwrap of object `.0`
    DropUnwrapped(u8),
    MakeMut(u8),
    GetMut(u8),
    /// into_raw + from_raw
    RawRoundTrip(u8),
    /// into_raw, increment_strong_count, from_raw twice (one more outside handle)
    IncStrong(u8),
    /// into_raw, decrement_strong_count (one fewer outside handle)
    DecStrong(u8),
    Arm(u8, Script),
}

impl Script {
    /// fixed-width encoding for state keys
    pub fn code(&self) -> [u8; 3] {
        match *self {
            Script::New => [1, 0, 0],
            Script::CloneRoot(t) => [2, t, 0],
            Script::DropRoot(t) => [3, t, 0],
            Script::StoreAdopt(a, b) => [4, a, b],
            Script::TakeUnadopt(a, b) => [5, a, b],
            Script::Unadopt(a, b) => [6, a, b],
            Script::Downgrade(t) => [7, t, 0],
            Script::UpgradeRoot(t) => [8, t, 0],
            Script::UpgradeOwn(k) => [9, k, 0],
            Script::Panic => [10, 0, 0],
            Script::CloneOwn(k) => [11, k, 0],
            Script::DropOwn(k) => [12, k, 0],
            Script::DropWeakRoot(t) => [13, t, 0],
        }
    }
}

impl fmt::Display for StoreMode {
    fn fmt(&self, f: &mut fmt::Formatter<'_>) -> fmt::Result {
        f.write_str(match self {
            StoreMode::Plain => "plain",
            StoreMode::Adopt => "adopt",
            StoreMode::StoreThenAdopt => "late",
            StoreMode::SameRef => "sameref",
        })
    }
}

impl fmt::Display for TakeMode {
    fn fmt(&self, f: &mut fmt::Formatter<'_>) -> fmt::Result {
        f.write_str(match self {
            TakeMode::Unadopt => "unadopt",
            TakeMode::SameRef => "sameref",
            TakeMode::Keep => "keep",
            TakeMode::Elide => "elide",
        })
    }
}

impl fmt::Display for Script {
    fn fmt(&self, f: &mut fmt::Formatter<'_>) -> fmt::Result {
        match self {
            Script::New => write!(f, "new"),
            Script::CloneRoot(t) => write!(f, "cloneroot.{t}"),
            Script::DropRoot(t) => write!(f, "droproot.{t}"),
            Script::StoreAdopt(a, b) => write!(f, "storeadopt.{a}.{b}"),
            Script::TakeUnadopt(a, b) => write!(f, "takeunadopt.{a}.{b}"),
            Script::Unadopt(a, b) => write!(f, "unadopt.{a}.{b}"),
            Script::Downgrade(t) => write!(f, "downgrade.{t}"),
            Script::UpgradeRoot(t) => write!(f, "upgraderoot.{t}"),
            Script::DropWeakRoot(t) => write!(f, "dropweakroot.{t}"),
            Script::UpgradeOwn(k) => write!(f, "upgradeown.{k}"),
            Script::Panic => write!(f, "panic"),
            Script::CloneOwn(k) => write!(f, "cloneown.{k}"),
            Script::DropOwn(k) => write!(f, "dropown.{k}"),
        }
    }
}

impl fmt::Display for Op {
    fn fmt(&self, f: &mut fmt::Formatter<'_>) -> fmt::Result {
        match self {
            Op::New => write!(f, "new"),
            Op::Clone(o) => write!(f, "clone:{o}"),
            Op::Drop(o) => write!(f, "drop:{o}"),
            Op::Store(p, o, m) => write!(f, "store:{p}:{o}:{m}"),
            Op::Take(p, o, m) => write!(f, "take:{p}:{o}:{m}"),
            Op::Unadopt(p, o, s) => write!(f, "unadopt:{p}:{o}:{}", if *s { "sameref" } else { "distinct" }),
            Op::Downgrade(o) => write!(f, "downgrade:{o}"),
            Op::Upgrade(o) => write!(f, "upgrade:{o}"),
            Op::CloneWeak(o) => write!(f, "cloneweak:{o}"),
            Op::DropWeak(o) => write!(f, "dropweak:{o}"),
            Op::StoreWeak(p, o) => write!(f, "storeweak:{p}:{o}"),
            Op::TakeWeak(p, o) => write!(f, "takeweak:{p}:{o}"),
            Op::TryUnwrap(o) => write!(f, "tryunwrap:{o}"),
            Op::DropUnwrapped(o) => write!(f, "dropunwrapped:{o}"),
            Op::MakeMut(o) => write!(f, "makemut:{o}"),
            Op::GetMut(o) => write!(f, "getmut:{o}"),
            Op::RawRoundTrip(o) => write!(f, "rawroundtrip:{o}"),
            Op::IncStrong(o) => write!(f, "incstrong:{o}"),
            Op::DecStrong(o) => write!(f, "decstrong:{o}"),
            Op::Arm(o, s) => write!(f, "arm:{o}:{s}"),
        }
    }
}

fn num(s: &str) -> Result<u8, String> {
    s.parse::<u8>().map_err(|_| format!("bad number {s:?}"))
}

pub fn parse_script(s: &str) -> Result<Script, String> {
    let p: Vec<&str> = s.split('.').collect();
    let a = |i: usize| -> Result<u8, String> { num(p.get(i).ok_or("missing script arg")?) };
    Ok(match p[0] {
        "new" => Script::New,
        "cloneroot" => Script::CloneRoot(a(1)?),
        "droproot" => Script::DropRoot(a(1)?),
        "storeadopt" => Script::StoreAdopt(a(1)?, a(2)?),
        "takeunadopt" => Script::TakeUnadopt(a(1)?, a(2)?),
        "unadopt" => Script::Unadopt(a(1)?, a(2)?),
        "downgrade" => Script::Downgrade(a(1)?),
        "upgraderoot" => Script::UpgradeRoot(a(1)?),
        "dropweakroot" => Script::DropWeakRoot(a(1)?),
        "upgradeown" => Script::UpgradeOwn(a(1)?),
        "panic" => Script::Panic,
        "cloneown" => Script::CloneOwn(a(1)?),
        "dropown" => Script::DropOwn(a(1)?),
        other => return Err(format!("unknown script {other:?}")),
    })
}

pub fn parse_op(s: &str) -> Result<Op, String> {
    let p: Vec<&str> = s.split(':').collect();
    let a = |i: usize| -> Result<u8, String> { num(p.get(i).ok_or("missing op arg")?) };
    let w = |i: usize| -> Result<&str, String> { p.get(i).copied().ok_or_else(|| "missing op arg".to_string()) };
    Ok(match p[0] {
        "new" => Op::New,
        "clone" => Op::Clone(a(1)?),
        "drop" => Op::Drop(a(1)?),
        "store" => Op::Store(
            a(1)?,
            a(2)?,
            match w(3)? {
                "plain" => StoreMode::Plain,
                "adopt" => StoreMode::Adopt,
                "late" => StoreMode::StoreThenAdopt,
                "sameref" => StoreMode::SameRef,
                m => return Err(format!("bad store mode {m:?}")),
            },
        ),
        "take" => Op::Take(
            a(1)?,
            a(2)?,
            match w(3)? {
                "unadopt" => TakeMode::Unadopt,
                "sameref" => TakeMode::SameRef,
                "keep" => TakeMode::Keep,
                "elide" => TakeMode::Elide,
                m => return Err(format!("bad take mode {m:?}")),
            },
        ),
        "unadopt" => Op::Unadopt(a(1)?, a(2)?, w(3)? == "sameref"),
        "downgrade" => Op::Downgrade(a(1)?),
        "upgrade" => Op::Upgrade(a(1)?),
        "cloneweak" => Op::CloneWeak(a(1)?),
        "dropweak" => Op::DropWeak(a(1)?),
        "storeweak" => Op::StoreWeak(a(1)?, a(2)?),
        "takeweak" => Op::TakeWeak(a(1)?, a(2)?),
        "tryunwrap" => Op::TryUnwrap(a(1)?),
        "dropunwrapped" => Op::DropUnwrapped(a(1)?),
        "makemut" => Op::MakeMut(a(1)?),
        "getmut" => Op::GetMut(a(1)?),
        "rawroundtrip" => Op::RawRoundTrip(a(1)?),
        "incstrong" => Op::IncStrong(a(1)?),
        "decstrong" => Op::DecStrong(a(1)?),
        "arm" => Op::Arm(a(1)?, parse_script(w(2)?)?),
        other => return Err(format!("unknown op {other:?}")),
    })
}

pub fn history_to_string(h: &[Op]) -> String {
    let mut s = String::new();
    for (i, op) in h.iter().enumerate() {
        if i > 0 {
            s.push(',');
        }
        s.push_str(&op.to_string());
    }
    s
}

pub fn parse_history(s: &str) -> Result<Vec<Op>, String> {
    let s = s.trim();
    if s.is_empty() {
        return Ok(vec![]);
    }
    s.split(',').map(|t| parse_op(t.trim())).collect()
}

/// Bounds and alphabet switches of one exploration.
#[derive(Clone, Debug)]
pub struct Config {
    /// objects
    pub n: u8,
    /// stored strong handles in total
    pub e: u8,
    /// stored strong handles per ordered (owner, target) pair
    pub m: u8,
    /// outside strong handles per object
    pub x: u8,
    /// Weak handles per object (outside + stored)
    pub w: u8,
    /// stored Weak handles in total
    pub ws: u8,
    /// armed destructor scripts per history
    pub s: u8,
    /// elided unadopts per history (C13)
    pub elide: u8,
    pub plain_edges: bool,
    pub sameref: bool,
    pub late_adopt: bool,
    pub bare_unadopt: bool,
    pub keep_take: bool,
    pub weak_ops: bool,
    pub consuming_ops: bool,
    /// which script families may be armed
    pub scripts_api: bool,
    pub scripts_panic: bool,
    pub scripts_upgrade_own: bool,
    pub scripts_dead_handle: bool,
    /// run the closing probe after every transition and compare it between merged histories
    pub probe: bool,
    /// distinguish states by which objects ever had a recorded adoption (C14)
    pub past: bool,
    /// heap layouts (indices into layout::family)
    pub layouts: Vec<u16>,
    /// stop after this BFS depth (0 = none; a capped run is reported as not exhaustive)
    pub max_depth: u32,
}

impl Config {
    pub fn base() -> Config {
        Config {
            n: 3,
            e: 3,
            m: 2,
            x: 2,
            w: 0,
            ws: 0,
            s: 0,
            elide: 0,
            plain_edges: true,
            sameref: true,
            late_adopt: false,
            bare_unadopt: true,
            keep_take: true,
            weak_ops: false,
            consuming_ops: false,
            scripts_api: false,
            scripts_panic: false,
            scripts_upgrade_own: false,
            scripts_dead_handle: false,
            probe: false,
            past: false,
            layouts: vec![0],
            max_depth: 0,
        }
    }

    /// `n=3,e=3,...` ; booleans as 0/1; layouts as `layouts=0+1+2`
    pub fn parse(spec: &str) -> Result<Config, String> {
        let mut c = Config::base();
        for kv in spec.split(',') {
            let kv = kv.trim();
            if kv.is_empty() {
                continue;
            }
            let (k, v) = kv.split_once('=').ok_or_else(|| format!("bad config item {kv:?}"))?;
            let b = || -> Result<bool, String> { Ok(num(v)? != 0) };
            match k {
                "n" => c.n = num(v)?,
                "e" => c.e = num(v)?,
                "m" => c.m = num(v)?,
                "x" => c.x = num(v)?,
                "w" => c.w = num(v)?,
                "ws" => c.ws = num(v)?,
                "s" => c.s = num(v)?,
                "elide" => c.elide = num(v)?,
                "plain" => c.plain_edges = b()?,
                "sameref" => c.sameref = b()?,
                "late" => c.late_adopt = b()?,
                "bare" => c.bare_unadopt = b()?,
                "keep" => c.keep_take = b()?,
                "weak" => c.weak_ops = b()?,
                "consume" => c.consuming_ops = b()?,
                "sapi" => c.scripts_api = b()?,
                "spanic" => c.scripts_panic = b()?,
                "sown" => c.scripts_upgrade_own = b()?,
                "sdead" => c.scripts_dead_handle = b()?,
                "probe" => c.probe = b()?,
                "past" => c.past = b()?,
                "depth" => c.max_depth = v.parse().map_err(|_| "bad depth")?,
                "layouts" => {
                    c.layouts = v
                        .split('+')
                        .map(|t| t.parse::<u16>().map_err(|_| format!("bad layout {t:?}")))
                        .collect::<Result<_, _>>()?
                }
                _ => return Err(format!("unknown config key {k:?}")),
            }
        }
        if c.n as usize > crate::payload::MAXN {
            return Err("n too large".into());
        }
        Ok(c)
    }

    pub fn to_spec(&self) -> String {
        format!(
            "n={},e={},m={},x={},w={},ws={},s={},elide={},plain={},sameref={},late={},bare={},keep={},weak={},consume={},sapi={},spanic={},sown={},sdead={},probe={},past={},depth={},layouts={}",
            self.n, self.e, self.m, self.x, self.w, self.ws, self.s, self.elide,
            self.plain_edges as u8, self.sameref as u8, self.late_adopt as u8, self.bare_unadopt as u8,
            self.keep_take as u8, self.weak_ops as u8, self.consuming_ops as u8, self.scripts_api as u8,
            self.scripts_panic as u8, self.scripts_upgrade_own as u8, self.scripts_dead_handle as u8,
            self.probe as u8, self.past as u8, self.max_depth,
            self.layouts.iter().map(|l| l.to_string()).collect::<Vec<_>>().join("+")
        )
    }
}
