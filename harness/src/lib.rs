//! Bounded exhaustive exploration of the real `cactusref` crate.
pub mod galloc;
pub mod layout;
pub mod monitor;
pub mod ops;
pub mod payload;
pub mod world;

#[global_allocator]
static GLOBAL: galloc::Galloc = galloc::Galloc;
