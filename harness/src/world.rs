//! Executes histories on the real crate, in lock-step with the monitor.
//!
//! One `Exec` = one fresh object graph under one heap layout. Every explorer
//! operation is (1) applied to the monitor, (2) performed with real calls while
//! allocator tracking is on and the payload logs destructor events, (3) the
//! events are fed to the monitor, (4) the implementation is observed through
//! every handle the program holds and compared with the monitor.

use std::cell::UnsafeCell;
use std::panic::{catch_unwind, AssertUnwindSafe};

use cactusref::verif;
use cactusref::{Adopt, Rc, Weak};

use crate::galloc::{self, SlotState, Tracking, Untracked};
use crate::layout::{layout, LAYOUT_LEN};
use crate::monitor::{Buf, Mon, Set, Status, Viol};
use crate::ops::{Op, Script, StoreMode, TakeMode};
use crate::payload::{self, emit, Ev, Node, Slot, WSlot, MAXN};

pub const RES_SKIP: u8 = 255;

struct G<T>(UnsafeCell<T>);
unsafe impl<T> Sync for G<T> {}

/// What the program holds outside of values.
pub struct World {
    pub ext: [Vec<Rc<Node>>; MAXN],
    pub extw: [Vec<Weak<Node>>; MAXN],
    pub unwrapped: [Option<Node>; MAXN],
    pub addr: [usize; MAXN],
    pub created: u8,
    pub max_objects: u8,
    pub lay: [usize; LAYOUT_LEN],
    pub armed: [Option<Script>; MAXN],
    /// message of the last panic caught (None = no panic)
    pub panic_msg: Option<String>,
}

static WORLD: G<Option<World>> = G(UnsafeCell::new(None));

/// Transient access. Never keep the reference across a call that can run a
/// destructor.
fn w() -> &'static mut World {
    unsafe { (*WORLD.0.get()).as_mut().expect("no world") }
}

const CAP: usize = 16;

fn push_ext(o: u8, h: Rc<Node>) {
    let _u = Untracked::new();
    let v = &mut w().ext[o as usize];
    assert!(v.len() < CAP, "outside handle list overflow");
    v.push(h);
}

fn pop_ext(o: u8) -> Rc<Node> {
    w().ext[o as usize].pop().expect("no outside handle")
}

fn push_extw(o: u8, h: Weak<Node>) {
    let _u = Untracked::new();
    let v = &mut w().extw[o as usize];
    assert!(v.len() < CAP, "outside weak list overflow");
    v.push(h);
}

pub struct ScriptPanic(pub u8);

static BENIGN_CLONE_OWN: G<bool> = G(UnsafeCell::new(false));
static IN_CALL: G<bool> = G(UnsafeCell::new(false));

/// In a dry run a `CloneOwn` script only notes the moment at which it would
/// clone (C16: the real run is expected to end the process there).
pub fn set_benign_clone_own(on: bool) {
    unsafe { *BENIGN_CLONE_OWN.0.get() = on }
}

static BENIGN_ACTIVE: G<bool> = G(UnsafeCell::new(false));

/// the dry run only concerns the operation being explored, not the prefix
fn benign_clone_own() -> bool {
    unsafe { *BENIGN_ACTIVE.0.get() }
}

fn box_layout() -> [usize; 5] {
    verif::box_layout::<Node>()
}

fn moved_out_hook(addr: *mut u8, len: usize, field: u8) {
    // the field is now uninhabited: make any later read of it fail
    if let Some(slot) = galloc::slot_of_addr(addr as usize) {
        galloc::st().slot_moved[slot] |= 1 << field;
    }
    let len8 = len & !7;
    if len8 > 0 {
        galloc::poison(addr, len8, if field == verif::FIELD_VALUE { 0xC1 } else { 0xC2 });
    }
}

pub fn global_init() {
    let _u = Untracked::new();
    galloc::init(box_layout()[0]);
    verif::set_moved_out_hook(Some(moved_out_hook));
    payload::set_dtor_hook(Some(run_script));
    std::panic::set_hook(Box::new(|info| {
        let _u = Untracked::new();
        let msg = if let Some(s) = info.payload().downcast_ref::<&str>() {
            (*s).to_string()
        } else if let Some(s) = info.payload().downcast_ref::<String>() {
            s.clone()
        } else if info.payload().downcast_ref::<ScriptPanic>().is_some() {
            "<script panic>".to_string()
        } else {
            "<non-string panic>".to_string()
        };
        let loc = info.location().map(|l| format!("{}:{}", l.file(), l.line())).unwrap_or_default();
        let in_call = unsafe { *IN_CALL.0.get() };
        if !in_call {
            eprintln!("harness panic outside a library call: {msg} @ {loc}");
        }
        if let Some(world) = unsafe { (*WORLD.0.get()).as_mut() } {
            if world.panic_msg.is_none() {
                world.panic_msg = Some(format!("{msg} @ {loc}"));
            }
        } else {
            eprintln!("harness panic outside an execution: {msg} @ {loc}");
        }
    }));
}

fn new_world(layout_index: u16, max_objects: u8) {
    let _u = Untracked::new();
    galloc::reset();
    verif::reset_counters();
    payload::log().len = 0;
    payload::log().overflow = false;
    let slot = unsafe { &mut *WORLD.0.get() };
    match slot {
        Some(world) => {
            // buffers are reused; drop_world left them empty
            world.addr = [0; MAXN];
            world.created = 0;
            world.max_objects = max_objects;
            world.lay = layout(layout_index);
            world.armed = [None; MAXN];
            world.panic_msg = None;
        }
        None => {
            *slot = Some(World {
                ext: std::array::from_fn(|_| Vec::with_capacity(CAP)),
                extw: std::array::from_fn(|_| Vec::with_capacity(CAP)),
                unwrapped: std::array::from_fn(|_| None),
                addr: [0; MAXN],
                created: 0,
                max_objects,
                lay: layout(layout_index),
                armed: [None; MAXN],
                panic_msg: None,
            });
        }
    }
}

/// Abandon the graph of the finished execution without running any crate code.
fn drop_world() {
    let _u = Untracked::new();
    if let Some(world) = unsafe { (*WORLD.0.get()).as_mut() } {
        for v in world.ext.iter_mut() {
            for h in v.drain(..) {
                std::mem::forget(h);
            }
        }
        for v in world.extw.iter_mut() {
            for h in v.drain(..) {
                std::mem::forget(h);
            }
        }
        for u in world.unwrapped.iter_mut() {
            if let Some(n) = u.take() {
                std::mem::forget(n);
            }
        }
    }
}

// ----------------------------------------------------------------------
// destructor scripts
// ----------------------------------------------------------------------

fn create_object() -> u8 {
    let id = w().created;
    let slot = w().lay[id as usize];
    w().created += 1;
    galloc::set_next_slot(slot);
    let h = Rc::new(Node::new(id));
    assert!(!galloc::next_slot_pending(), "Rc::new did not allocate the RcBox first");
    w().addr[id as usize] = verif::box_addr(&h);
    push_ext(id, h);
    id
}

fn do_store(p: u8, o: u8, m: StoreMode) {
    let h = pop_ext(o);
    let this: &Rc<Node> = &w().ext[p as usize][0];
    match m {
        StoreMode::Plain => {
            this.slots.borrow_mut().push(Slot::new(p, o, h));
        }
        StoreMode::Adopt => {
            unsafe { Rc::adopt_unchecked(this, &h) };
            this.slots.borrow_mut().push(Slot::new(p, o, h));
        }
        StoreMode::StoreThenAdopt => {
            this.slots.borrow_mut().push(Slot::new(p, o, h));
            let slots = this.slots.borrow();
            unsafe { Rc::adopt_unchecked(this, slots.last().unwrap().handle()) };
        }
        StoreMode::SameRef => {
            unsafe { Rc::adopt_unchecked(this, this) };
            this.slots.borrow_mut().push(Slot::new(p, o, h));
        }
    }
}

/// removes the last stored handle to o from p's value; returns it
fn take_slot(this: &Rc<Node>, o: u8) -> Option<Rc<Node>> {
    let mut slots = this.slots.borrow_mut();
    let idx = slots.iter().rposition(|s| s.target == o)?;
    Some(slots.remove(idx).into_handle())
}

fn do_take(p: u8, o: u8, m: TakeMode) -> bool {
    let this: &Rc<Node> = &w().ext[p as usize][0];
    let h = match take_slot(this, o) {
        Some(h) => h,
        None => return false,
    };
    match m {
        TakeMode::Unadopt => Rc::unadopt(this, &h),
        TakeMode::SameRef => Rc::unadopt(this, this),
        TakeMode::Keep | TakeMode::Elide => {}
    }
    push_ext(o, h);
    true
}

fn do_unadopt(p: u8, o: u8, sameref: bool) {
    let world = w();
    let this = &world.ext[p as usize][0];
    if sameref {
        Rc::unadopt(this, this);
    } else if p == o {
        Rc::unadopt(this, &world.ext[p as usize][1]);
    } else {
        Rc::unadopt(this, &world.ext[o as usize][0]);
    }
}

fn run_script(node: &Node) {
    let id = node.id;
    let script = match w().armed[id as usize].take() {
        Some(s) => s,
        None => return,
    };
    let has = |o: u8, k: usize| w().ext[o as usize].len() >= k;
    match script {
        Script::New => {
            if w().created < w().max_objects {
                emit(Ev::Script(id, script, 1));
                create_object();
            } else {
                emit(Ev::Script(id, script, RES_SKIP));
            }
        }
        Script::CloneRoot(t) => {
            if has(t, 1) {
                let c = Rc::clone(&w().ext[t as usize][0]);
                push_ext(t, c);
                emit(Ev::Script(id, script, 1));
            } else {
                emit(Ev::Script(id, script, RES_SKIP));
            }
        }
        Script::DropRoot(t) => {
            if has(t, 1) {
                let h = pop_ext(t);
                emit(Ev::Script(id, script, 1));
                drop(h);
            } else {
                emit(Ev::Script(id, script, RES_SKIP));
            }
        }
        Script::StoreAdopt(a, b) => {
            if has(a, 1) && has(b, 1 + usize::from(a == b)) {
                emit(Ev::Script(id, script, 1));
                do_store(a, b, StoreMode::Adopt);
            } else {
                emit(Ev::Script(id, script, RES_SKIP));
            }
        }
        Script::TakeUnadopt(a, b) => {
            let possible = has(a, 1) && w().ext[a as usize][0].slots.borrow().iter().any(|s| s.target == b);
            if possible {
                emit(Ev::Script(id, script, 1));
                do_take(a, b, TakeMode::Unadopt);
            } else {
                emit(Ev::Script(id, script, RES_SKIP));
            }
        }
        Script::Unadopt(a, b) => {
            if has(a, 1) && has(b, 1 + usize::from(a == b)) {
                emit(Ev::Script(id, script, 1));
                do_unadopt(a, b, false);
            } else {
                emit(Ev::Script(id, script, RES_SKIP));
            }
        }
        Script::Downgrade(t) => {
            if has(t, 1) {
                let wk = Rc::downgrade(&w().ext[t as usize][0]);
                push_extw(t, wk);
                emit(Ev::Script(id, script, 1));
            } else {
                emit(Ev::Script(id, script, RES_SKIP));
            }
        }
        Script::UpgradeRoot(t) => {
            if !w().extw[t as usize].is_empty() {
                let r = w().extw[t as usize][0].upgrade();
                match r {
                    Some(h) => {
                        emit(Ev::Script(id, script, 1));
                        push_ext(t, h);
                    }
                    None => emit(Ev::Script(id, script, 0)),
                }
            } else {
                emit(Ev::Script(id, script, RES_SKIP));
            }
        }
        Script::DropWeakRoot(t) => {
            if !w().extw[t as usize].is_empty() {
                let wk = w().extw[t as usize].pop().unwrap();
                emit(Ev::Script(id, script, 1));
                drop(wk);
            } else {
                emit(Ev::Script(id, script, RES_SKIP));
            }
        }
        Script::UpgradeOwn(k) => {
            let r = {
                let ws = node.wslots.borrow();
                ws.get(k as usize).map(|s| (s.target, s.weak().upgrade()))
            };
            match r {
                Some((t, Some(h))) => {
                    emit(Ev::Script(id, Script::UpgradeRoot(t), 1));
                    push_ext(t, h);
                }
                Some((t, None)) => emit(Ev::Script(id, Script::UpgradeRoot(t), 0)),
                None => emit(Ev::Script(id, script, RES_SKIP)),
            }
        }
        Script::Panic => {
            emit(Ev::Script(id, script, 1));
            std::panic::panic_any(ScriptPanic(id));
        }
        Script::CloneOwn(k) => {
            let tgt = node.slots.borrow().get(k as usize).map(|s| s.target);
            match tgt {
                Some(t) if benign_clone_own() => {
                    // dry run: only note that the handle would be cloned now
                    emit(Ev::Script(id, Script::CloneRoot(t), 2));
                }
                Some(t) => {
                    let h = Rc::clone(node.slots.borrow()[k as usize].handle());
                    emit(Ev::Script(id, Script::CloneRoot(t), 1));
                    push_ext(t, h);
                }
                None => emit(Ev::Script(id, script, RES_SKIP)),
            }
        }
        Script::DropOwn(k) => {
            let s = {
                let mut s = node.slots.borrow_mut();
                if (k as usize) < s.len() {
                    Some(s.remove(k as usize))
                } else {
                    None
                }
            };
            match s {
                Some(slot) => {
                    emit(Ev::Script(id, script, 1));
                    drop(slot); // logs Release
                }
                None => emit(Ev::Script(id, script, RES_SKIP)),
            }
        }
    }
}

// ----------------------------------------------------------------------
// one execution
// ----------------------------------------------------------------------

#[derive(Clone, Debug, Default)]
pub struct Outcome {
    pub viol: Vec<Viol>,
    /// index of the step (0-based, over ops then probe steps) at which the first violation appeared
    pub viol_step: Option<usize>,
    pub key: [u64; 2],
    /// objects destroyed by the last explorer operation (observation included)
    pub died_last: Set,
    pub probe_digest: u64,
    pub steps: usize,
    /// teardown paths taken during the last op (hook counters), for coverage statistics
    pub paths: [usize; 5],
    /// hashes of (table content, iteration order) seen; and group orders
    pub orders: [(u64, u64); 8],
    pub norders: usize,
    /// number of states in which "everything destroyed => heap returned" was evaluated
    pub all_dead_checked: usize,
    /// number of clone/drop calls whose cost was checked (K14)
    pub cost_checked: usize,
}

pub struct Exec<'a> {
    pub mon: Mon,
    pub cfg: &'a crate::ops::Config,
    pub out: Outcome,
    died_op: Set,
    pub verbose: bool,
    /// check trace/alloc counters around clone/drop of link-free objects (K14)
    pub check_cost: bool,
    /// observe the implementation after each step (off while replaying an already validated prefix)
    pub observing: bool,
}

fn fnv(h: &mut u64, bytes: &[u8]) {
    for &b in bytes {
        *h ^= u64::from(b);
        *h = h.wrapping_mul(0x0000_0100_0000_01b3);
    }
}

impl<'a> Exec<'a> {
    pub fn new(cfg: &'a crate::ops::Config, layout_index: u16) -> Exec<'a> {
        new_world(layout_index, cfg.n);
        let mut mon = Mon::new();
        mon.key_includes_past = cfg.past;
        Exec {
            mon,
            cfg,
            out: Outcome::default(),
            died_op: 0,
            verbose: false,
            check_cost: false,
            observing: true,
        }
    }

    pub fn finish(mut self) -> (Mon, Outcome) {
        drop_world();
        self.out.viol = std::mem::take(&mut self.mon.viol);
        (self.mon, self.out)
    }

    fn note_viol_step(&mut self) {
        if self.out.viol_step.is_none() && !self.mon.viol.is_empty() {
            self.out.viol_step = Some(self.out.steps);
        }
    }

    /// Run `f` (real crate calls) with tracking on, catching panics; feed the
    /// logged events to the monitor. Returns true if a panic was caught.
    fn call<F: FnOnce()>(&mut self, f: F) -> bool {
        payload::log().len = 0;
        w().panic_msg = None;
        let r = {
            let _t = Tracking::on();
            unsafe { *IN_CALL.0.get() = true };
            let r = catch_unwind(AssertUnwindSafe(f));
            unsafe { *IN_CALL.0.get() = false };
            r
        };
        let mut script_panic = false;
        let mut panicked = false;
        if let Err(payload) = r {
            panicked = true;
            let _u = Untracked::new();
            script_panic = payload.downcast_ref::<ScriptPanic>().is_some();
            drop(payload);
        }
        let n = payload::log().len;
        if payload::log().overflow {
            self.mon.viol.push(Viol { clause: "MACHINERY", sig: "event-log-overflow".into(), detail: String::new() });
        }
        let mut saw_script = false;
        let mut saw_panic_script = false;
        for i in 0..n {
            let e = payload::log().ev[i];
            if self.verbose {
                eprintln!("      event {e:?}");
            }
            if let Ev::Script(owner, s, res) = e {
                saw_script = true;
                if s == Script::Panic {
                    saw_panic_script = true;
                }
                self.apply_script(owner, s, res);
            } else {
                self.mon.process_event(e);
            }
        }
        if saw_panic_script && !panicked {
            self.mon.viol.push(Viol {
                clause: "K11",
                sig: "panic-not-propagated".into(),
                detail: "a value's destructor panicked during the call but the call returned normally: the panic did not reach the caller of drop".into(),
            });
            self.mon.panicked = true;
        }
        if panicked {
            if script_panic {
                self.mon.panicked = true;
            } else {
                let msg = w().panic_msg.clone().unwrap_or_default();
                let kind = if msg.contains("already borrowed") || msg.contains("already mutably borrowed") {
                    "borrow-conflict"
                } else if msg.contains("overflow") {
                    "count-underflow"
                } else {
                    "other"
                };
                let armed = self.mon.armed_total() > 0 || saw_script;
                self.mon.viol.push(Viol {
                    clause: if armed { "K10" } else { "K2" },
                    sig: format!("library-panic:{kind}"),
                    detail: format!("the library panicked: {msg}"),
                });
            }
        }
        if let Some(err) = galloc::st().error {
            galloc::st().error = None;
            self.mon.viol.push(Viol {
                clause: if err.starts_with("harness") { "MACHINERY" } else { "K2" },
                sig: format!("allocator:{err}"),
                detail: format!("allocator-level error {err} at {:#x}", galloc::st().error_addr),
            });
        }
        self.note_viol_step();
        panicked
    }

    fn apply_script(&mut self, _owner: u8, s: Script, res: u8) {
        if res == RES_SKIP {
            return;
        }
        let m = &mut self.mon;
        match s {
            Script::New => {
                m.new_object();
            }
            Script::CloneRoot(t) => {
                let dead = !m.live(t) || m.must_die & (1 << t) != 0;
                if res == 2 {
                    // dry run of a CloneOwn script
                    if dead {
                        m.noted_dead_clone = true;
                    }
                    return;
                }
                if dead {
                    m.viol.push(Viol { clause: "K16", sig: "clone-of-dead-handle-returned".into(), detail: format!("a destructor cloned a handle to object {t}, which is destroyed or being destroyed by the running call, and the clone returned") });
                }
                m.ext[t as usize] += 1;
            }
            Script::DropRoot(t) => {
                m.ext[t as usize] -= 1;
                m.on_drop_event(t);
            }
            Script::StoreAdopt(a, b) => m.apply_store(a, b, StoreMode::Adopt),
            Script::TakeUnadopt(a, b) => {
                m.apply_take(a, b, TakeMode::Unadopt);
            }
            Script::Unadopt(a, b) => m.apply_unadopt(a, b, false),
            Script::Downgrade(t) => m.extw[t as usize] += 1,
            Script::DropWeakRoot(t) => m.extw[t as usize] -= 1,
            Script::UpgradeRoot(t) => {
                if res == 1 {
                    if !m.live(t) {
                        m.viol.push(Viol { clause: "K5", sig: "upgrade-in-destructor-resurrected".into(), detail: format!("Weak::upgrade inside a destructor returned a handle to object {t} whose destructor had already started") });
                    } else if m.must_die & (1 << t) != 0 {
                        m.viol.push(Viol { clause: "K5", sig: "upgrade-in-destructor-of-dying-peer".into(), detail: format!("Weak::upgrade inside a destructor returned a handle to object {t} which is being collected by the running call") });
                    }
                    m.ext[t as usize] += 1;
                } else if m.live(t) {
                    m.upgrade_none |= 1 << t;
                }
            }
            Script::Panic | Script::UpgradeOwn(_) | Script::CloneOwn(_) => {}
            Script::DropOwn(_) => { /* the Release event that follows does the bookkeeping */ }
        }
    }

    fn end_call(&mut self) {
        self.mon.end_call();
        self.died_op |= self.mon.died_now;
        self.note_viol_step();
    }

    // ------------------------------------------------------------------
    // explorer operations
    // ------------------------------------------------------------------

    pub fn step(&mut self, op: Op) {
        if self.verbose {
            eprintln!("  step {}: {op}", self.out.steps);
        }
        self.died_op = 0;
        self.mon.begin_call();
        let paths0 = verif::path_counters();
        match op {
            Op::New => {
                let id = self.mon.new_object();
                self.call(|| {
                    let real = create_object();
                    assert_eq!(real, id);
                });
            }
            Op::Clone(o) => {
                let cost0 = self.cost_probe(o);
                self.mon.ext[o as usize] += 1;
                self.call(|| {
                    let c = if let Some(h) = w().ext[o as usize].first() {
                        Rc::clone(h)
                    } else {
                        let found = find_stored(o).expect("monitor says reachable, no stored handle found");
                        found
                    };
                    push_ext(o, c);
                });
                self.cost_check(cost0, "clone", o);
            }
            Op::Drop(o) => {
                let cost0 = self.cost_probe_drop(o);
                self.mon.ext[o as usize] -= 1;
                self.mon.on_drop_event(o);
                self.call(|| {
                    let h = pop_ext(o);
                    drop(h);
                });
                self.cost_check(cost0, "drop", o);
            }
            Op::Store(p, o, m) => {
                self.mon.apply_store(p, o, m);
                self.call(|| do_store(p, o, m));
            }
            Op::Take(p, o, m) => {
                self.mon.apply_take(p, o, m);
                self.call(|| {
                    assert!(do_take(p, o, m), "no stored handle to take");
                });
            }
            Op::Unadopt(p, o, same) => {
                self.mon.apply_unadopt(p, o, same);
                self.call(|| do_unadopt(p, o, same));
            }
            Op::Downgrade(o) => {
                self.mon.extw[o as usize] += 1;
                self.call(|| {
                    let wk = Rc::downgrade(&w().ext[o as usize][0]);
                    push_extw(o, wk);
                });
            }
            Op::Upgrade(o) => {
                let expect = self.mon.live(o);
                let mut got = false;
                self.call(|| {
                    if let Some(h) = w().extw[o as usize][0].upgrade() {
                        got = true;
                        push_ext(o, h);
                    }
                });
                if got {
                    self.mon.ext[o as usize] += 1;
                }
                if got != expect {
                    self.mon.viol.push(Viol {
                        clause: "K5",
                        sig: format!("upgrade-wrong-answer;got_some={}", got as u8),
                        detail: format!("Weak::upgrade of object {o}: got_some={got}, object live={expect}"),
                    });
                }
            }
            Op::CloneWeak(o) => {
                self.mon.extw[o as usize] += 1;
                self.call(|| {
                    let c = Weak::clone(&w().extw[o as usize][0]);
                    push_extw(o, c);
                });
            }
            Op::DropWeak(o) => {
                self.mon.extw[o as usize] -= 1;
                self.call(|| {
                    let wk = w().extw[o as usize].pop().unwrap();
                    drop(wk);
                });
            }
            Op::StoreWeak(p, o) => {
                self.mon.extw[o as usize] -= 1;
                self.mon.wslots[p as usize].push(o);
                self.call(|| {
                    let wk = w().extw[o as usize].pop().unwrap();
                    w().ext[p as usize][0].wslots.borrow_mut().push(WSlot::new(p, o, wk));
                });
            }
            Op::TakeWeak(p, o) => {
                self.mon.wslots[p as usize].remove_last(o);
                self.mon.extw[o as usize] += 1;
                self.call(|| {
                    let wk = {
                        let mut ws = w().ext[p as usize][0].wslots.borrow_mut();
                        let idx = ws.iter().rposition(|s| s.target == o).unwrap();
                        ws.remove(idx).into_weak()
                    };
                    push_extw(o, wk);
                });
            }
            Op::TryUnwrap(o) => {
                let expect_ok = self.mon.strong(o) == 1;
                let mut got_ok = false;
                self.call(|| {
                    let h = pop_ext(o);
                    match Rc::try_unwrap(h) {
                        Ok(node) => {
                            got_ok = true;
                            let _u = Untracked::new();
                            w().unwrapped[o as usize] = Some(node);
                        }
                        Err(h) => push_ext(o, h),
                    }
                });
                if got_ok {
                    self.mon.give_up_allocation(o, Status::Unwrapped);
                }
                if got_ok != expect_ok {
                    self.mon.viol.push(Viol { clause: "K12", sig: "try_unwrap-wrong-answer".into(), detail: format!("try_unwrap({o}) ok={got_ok}, expected {expect_ok}") });
                }
            }
            Op::DropUnwrapped(o) => {
                self.call(|| {
                    let node = w().unwrapped[o as usize].take().unwrap();
                    drop(node);
                });
            }
            Op::MakeMut(o) => self.make_mut(o),
            Op::GetMut(o) => {
                let expect = self.mon.strong(o) == 1 && self.mon.weak(o) == 0;
                let mut got = false;
                self.call(|| {
                    let mut h = pop_ext(o);
                    if let Some(node) = Rc::get_mut(&mut h) {
                        got = node.intact(o);
                    }
                    push_ext(o, h);
                });
                if got != expect {
                    self.mon.viol.push(Viol { clause: "K12", sig: "get_mut-wrong-answer".into(), detail: format!("get_mut({o}) some={got}, expected {expect}") });
                }
            }
            Op::RawRoundTrip(o) => {
                let mut intact = false;
                self.call(|| {
                    let h = pop_ext(o);
                    let p = Rc::into_raw(h);
                    intact = unsafe { (*p).intact(o) };
                    let h = unsafe { Rc::from_raw(p) };
                    push_ext(o, h);
                });
                if !intact {
                    self.mon.viol.push(Viol { clause: "K12", sig: "into_raw-pointer-wrong".into(), detail: format!("into_raw({o}) does not point at the value") });
                }
            }
            Op::IncStrong(o) => {
                self.mon.ext[o as usize] += 1;
                self.call(|| {
                    let h = pop_ext(o);
                    let p = Rc::into_raw(h);
                    unsafe {
                        Rc::increment_strong_count(p);
                        push_ext(o, Rc::from_raw(p));
                        push_ext(o, Rc::from_raw(p));
                    }
                });
            }
            Op::DecStrong(o) => {
                self.mon.ext[o as usize] -= 1;
                self.mon.on_drop_event(o);
                self.call(|| {
                    let h = pop_ext(o);
                    let p = Rc::into_raw(h);
                    unsafe { Rc::decrement_strong_count(p) };
                });
            }
            Op::Arm(o, s) => {
                self.mon.armed[o as usize] = Some(s);
                w().armed[o as usize] = Some(s);
            }
        }
        self.end_call();
        if self.observing {
            self.observe();
        }
        let paths1 = verif::path_counters();
        for i in 0..5 {
            self.out.paths[i] = paths1[i] - paths0[i];
        }
        self.out.died_last = self.died_op;
        self.out.steps += 1;
    }

    fn make_mut(&mut self, o: u8) {
        let strong = self.mon.strong(o);
        let weak = self.mon.weak(o);
        if strong != 1 {
            // clone branch: new allocation with a copy of the value, old handle dropped
            let n = self.mon.n;
            let slots = self.mon.slots[o as usize];
            let wslots = self.mon.wslots[o as usize];
            self.mon.status[n as usize] = Status::Live;
            self.mon.ext[n as usize] = 1;
            self.mon.slots[n as usize] = slots;
            self.mon.wslots[n as usize] = wslots;
            self.mon.n += 1;
            self.mon.ext[o as usize] -= 1;
            self.mon.on_drop_event(o);
            self.call(|| {
                let mut h = pop_ext(o);
                payload::set_next_clone_id(n);
                galloc::set_next_slot(w().lay[n as usize]);
                w().created += 1;
                let node = Rc::make_mut(&mut h);
                assert!(node.intact(n));
                w().addr[n as usize] = verif::box_addr(&h);
                push_ext(n, h);
            });
        } else if weak != 0 {
            // steal branch: the value moves to a new allocation
            let n = self.mon.n;
            let slots = self.mon.slots[o as usize];
            let wslots = self.mon.wslots[o as usize];
            self.mon.status[n as usize] = Status::Live;
            self.mon.ext[n as usize] = 1;
            self.mon.slots[n as usize] = slots;
            self.mon.wslots[n as usize] = wslots;
            self.mon.slots[o as usize].clear();
            self.mon.wslots[o as usize].clear();
            self.mon.armed[n as usize] = self.mon.armed[o as usize].take();
            self.mon.n += 1;
            self.mon.give_up_allocation(o, Status::Stolen);
            let mut moved = true;
            let mut cloned = false;
            self.call(|| {
                let mut h = pop_ext(o);
                galloc::set_next_slot(w().lay[n as usize]);
                payload::set_next_clone_id(n);
                w().created += 1;
                let node = Rc::make_mut(&mut h);
                // the program relabels the value it now exclusively owns
                moved = node.intact(o);
                cloned = node.intact(n);
                node.relabel(n);
                w().addr[n as usize] = verif::box_addr(&h);
                w().armed[n as usize] = w().armed[o as usize].take();
                push_ext(n, h);
            });
            if !moved {
                self.mon.viol.push(Viol {
                    clause: "K12",
                    sig: if cloned { "make_mut-cloned-a-uniquely-owned-value".into() } else { "make_mut-lost-the-value".into() },
                    detail: format!("make_mut on object {o} (one strong handle, Weak handles outstanding) must move the value into a new allocation; the handle now points at {}", if cloned { "a clone of it (the original was neither moved nor destroyed)" } else { "something else" }),
                });
            }
        } else {
            self.call(|| {
                let mut h = pop_ext(o);
                let node = Rc::make_mut(&mut h);
                assert!(node.intact(o));
                push_ext(o, h);
            });
        }
    }

    // ------------------------------------------------------------------
    // K14: no tracing cost without adoptions
    // ------------------------------------------------------------------

    fn cost_probe(&self, o: u8) -> Option<([usize; 4], usize)> {
        if !self.check_cost || self.mon.has_links(o) {
            return None;
        }
        Some((verif::trace_counters(), galloc::st().allocs))
    }

    /// for a drop: the object and everything the drop transitively releases must be link-free
    fn cost_probe_drop(&self, o: u8) -> Option<([usize; 4], usize)> {
        if !self.check_cost {
            return None;
        }
        // transitive release closure under the monitor: objects whose count reaches zero
        let mut m = self.mon.clone();
        let mut stack = vec![o];
        m.ext[o as usize] = m.ext[o as usize].saturating_sub(1);
        let mut touched: Set = 1 << o;
        while let Some(x) = stack.pop() {
            if m.has_links(x) {
                return None;
            }
            if m.live(x) && m.strong(x) == 0 {
                m.status[x as usize] = Status::Destroyed;
                let targets: Vec<u8> = m.slots[x as usize].as_slice().to_vec();
                m.slots[x as usize].clear();
                for t in targets {
                    touched |= 1 << t;
                    stack.push(t);
                }
            }
        }
        let _ = touched;
        Some((verif::trace_counters(), galloc::st().allocs))
    }

    fn cost_check(&mut self, before: Option<([usize; 4], usize)>, what: &str, o: u8) {
        if let Some((tc0, a0)) = before {
            self.out.cost_checked += 1;
            let tc1 = verif::trace_counters();
            let a1 = galloc::st().allocs;
            if tc1[0] != tc0[0] {
                self.mon.viol.push(Viol { clause: "K14", sig: format!("trace-on-link-free-{what}"), detail: format!("{what} of link-free object {o} ran {} reachability trace(s)", tc1[0] - tc0[0]) });
            }
            if a1 != a0 {
                self.mon.viol.push(Viol { clause: "K14", sig: format!("allocation-on-link-free-{what}"), detail: format!("{what} of link-free object {o} performed {} heap allocation(s)", a1 - a0) });
            }
            self.note_viol_step();
        }
    }

    // ------------------------------------------------------------------
    // observation
    // ------------------------------------------------------------------

    fn id_of_addr(&self, addr: usize) -> Option<u8> {
        (0..self.mon.n).find(|&o| w().addr[o as usize] == addr)
    }

    fn viol(&mut self, clause: &'static str, sig: &str, detail: String) {
        self.mon.viol.push(Viol { clause, sig: sig.to_string(), detail });
    }

    /// checks through one strong handle to a live object
    fn check_handle(&mut self, h: &Rc<Node>, o: u8, how: &str) {
        let node: &Node = h;
        if !node.intact(o) {
            self.viol("K1", "held-handle-sees-corrupt-value", format!("value of object {o} read through a {how} handle is not intact"));
            return;
        }
        let sc = Rc::strong_count(h);
        let wc = Rc::weak_count(h);
        let es = self.mon.strong(o) as usize;
        let ew = self.mon.weak(o) as usize;
        if sc != es {
            self.viol("K6", "strong-count-wrong", format!("strong_count of object {o} via {how} handle is {sc}, {es} strong handles exist"));
        }
        if wc != ew {
            self.viol("K6", "weak-count-wrong", format!("weak_count of object {o} via {how} handle is {wc}, {ew} Weak handles exist"));
        }
        let a = verif::box_addr(h);
        if a != w().addr[o as usize] {
            self.viol("K6", "identity-changed", format!("handle to object {o} points at {a:#x}, object was created at {:#x}", w().addr[o as usize]));
        }
        let lay = box_layout();
        if Rc::as_ptr(h) as usize != a + lay[3] {
            self.viol("K6", "as_ptr-wrong", format!("as_ptr of object {o} is not the value address"));
        }
    }

    /// K8: link table of a live object against the ledger
    fn check_table(&mut self, h: &Rc<Node>, o: u8, snap_out: &mut Buf<256>) {
        const CAPT: usize = 16;
        let mut raw = [(0usize, 0u8, 0usize); CAPT];
        let n = verif::links_into(h, &mut raw);
        if n > CAPT {
            self.viol("MACHINERY", "table-larger-than-snapshot-buffer", format!("table of {o} has {n} entries"));
            return;
        }
        let mut rows = [(0u8, 0u8, 0usize); CAPT];
        let mut nrows = 0;
        let mut order_hash: u64 = 0xcbf29ce484222325;
        for &(addr, kind, count) in &raw[..n] {
            match self.id_of_addr(addr) {
                Some(peer) => {
                    rows[nrows] = (peer, kind, count);
                    nrows += 1;
                    fnv(&mut order_hash, &[peer, kind]);
                    if !self.mon.live(peer) {
                        let st = self.mon.status[peer as usize];
                        let consumed = matches!(st, Status::Unwrapped | Status::Stolen);
                        self.viol(
                            if consumed { "K12" } else { "K8" },
                            if consumed { "table-names-given-up-allocation" } else { "table-names-dead-object" },
                            format!("link table of object {o} has an entry (kind {kind}, count {count}) naming object {peer} which is {st:?}"),
                        );
                    }
                }
                None => {
                    self.viol("K8", "table-names-unknown-address", format!("link table of object {o} names address {addr:#x} which is no object"));
                }
            }
        }
        let sorted = &mut rows[..nrows];
        sorted.sort_unstable();
        if n >= 2 {
            let mut content_hash: u64 = 0xcbf29ce484222325;
            for r in sorted.iter() {
                fnv(&mut content_hash, &[r.0, r.1]);
            }
            fnv(&mut content_hash, &[o]);
            if self.out.norders < self.out.orders.len() {
                self.out.orders[self.out.norders] = (content_hash, order_hash);
                self.out.norders += 1;
            }
        }
        // expected rows from the ledger
        let mut expect = [(0u8, 0u8, 0usize); CAPT];
        let mut ne = 0;
        for q in self.mon.ids() {
            let f = self.mon.rec[o as usize][q as usize];
            if f > 0 {
                expect[ne] = (q, verif::KIND_FORWARD, f as usize);
                ne += 1;
            }
            let b = self.mon.rec[q as usize][o as usize];
            if b > 0 {
                expect[ne] = (q, verif::KIND_BACKWARD, b as usize);
                ne += 1;
            }
        }
        if self.mon.lp[o as usize] > 0 {
            expect[ne] = (o, verif::KIND_LOOPBACK, self.mon.lp[o as usize] as usize);
            ne += 1;
        }
        let expect = &mut expect[..ne];
        expect.sort_unstable();
        if *sorted != *expect {
            let lb = self.mon.lp.iter().any(|&l| l > 0) || sorted.iter().any(|r| r.1 == verif::KIND_LOOPBACK);
            let wiped = sorted.is_empty();
            let (sv, ev) = (sorted.to_vec(), expect.to_vec());
            self.viol(
                "K8",
                &format!("table-differs-from-ledger;loopback={};wiped={}", lb as u8, wiped as u8),
                format!("link table of object {o} is {sv:?} (peer,kind,count; kind 0=fwd 1=back 2=loop), the calls made imply {ev:?}"),
            );
        }
        snap_out.push(o);
        snap_out.push(nrows as u8);
        for r in rows[..nrows].iter() {
            snap_out.extend_from_slice(&[r.0, r.1, r.2 as u8]);
        }
    }

    fn visit(&mut self, h: &Rc<Node>, o: u8, seen: &mut Set, how: &str, snap: &mut Buf<256>) {
        if !self.mon.live(o) {
            // the monitor already reported the destruction of a reachable object
            return;
        }
        let slot = galloc::slot_of_addr(w().addr[o as usize]).unwrap();
        if galloc::st().slot_state[slot] != SlotState::Live {
            self.viol("K1", "live-object-allocation-released", format!("allocation of live object {o} ({how} handle) was released"));
            return;
        }
        if galloc::st().slot_moved[slot] != 0 {
            self.viol("K1", "live-object-contents-moved-out", format!("value or table of live object {o} ({how} handle) was moved out without running its destructor"));
            return;
        }
        self.check_handle(h, o, how);
        if *seen & (1 << o) != 0 {
            return;
        }
        *seen |= 1 << o;
        self.check_table(h, o, snap);
        let n = h.slots.borrow().len();
        for i in 0..n {
            let (t, c) = {
                let s = h.slots.borrow();
                (s[i].target, s[i].handle() as *const Rc<Node>)
            };
            // the stored handle stays in place during observation
            let child: &Rc<Node> = unsafe { &*c };
            self.visit(child, t, seen, "stored", snap);
        }
        // Weak handles stored in reachable values
        let nw = h.wslots.borrow().len();
        for i in 0..nw {
            let (t, c) = {
                let s = h.wslots.borrow();
                (s[i].target, s[i].weak() as *const Weak<Node>)
            };
            let wk: &Weak<Node> = unsafe { &*c };
            self.check_weak(wk, t, "stored");
        }
    }

    fn check_weak(&mut self, wk: &Weak<Node>, o: u8, how: &str) {
        let live = self.mon.live(o);
        let sc = wk.strong_count();
        let wc = wk.weak_count();
        let (es, ew) = if live { (self.mon.strong(o) as usize, self.mon.weak(o) as usize) } else { (0, 0) };
        if sc != es || wc != ew {
            self.viol(
                if live { "K6" } else { "K5" },
                if live { "weak-sees-wrong-counts" } else { "weak-to-dead-object-reports-counts" },
                format!("{how} Weak to object {o} (live={live}) reports strong_count={sc} weak_count={wc}, expected {es}/{ew}"),
            );
        }
        let slot = galloc::slot_of_addr(w().addr[o as usize]).unwrap();
        if galloc::st().slot_state[slot] != SlotState::Live {
            self.viol("K5", "allocation-released-while-weak-exists", format!("allocation of object {o} was released although a Weak handle to it exists"));
            return;
        }
        // upgrade + drop only where it cannot itself start a collection
        let reach = self.mon.reach();
        if !live || reach & (1 << o) != 0 {
            let mut got: Option<Rc<Node>> = None;
            {
                let _t = Tracking::on();
                let r = catch_unwind(AssertUnwindSafe(|| wk.upgrade()));
                if let Ok(x) = r {
                    got = x;
                }
            }
            match got {
                Some(h) => {
                    if !live {
                        self.viol("K5", "upgrade-resurrected-dead-object", format!("{how} Weak::upgrade returned a handle to destroyed object {o}"));
                        std::mem::forget(h);
                    } else {
                        if !Rc::ptr_eq(&h, &h) || verif::box_addr(&h) != w().addr[o as usize] {
                            self.viol("K5", "upgrade-returned-other-object", format!("upgrade of Weak to {o} returned a different allocation"));
                        }
                        self.mon.ext[o as usize] += 1;
                        self.mon.begin_call();
                        self.mon.ext[o as usize] -= 1;
                        self.mon.on_drop_event(o);
                        self.call(move || drop(h));
                        self.end_call();
                    }
                }
                None => {
                    if live {
                        self.viol("K5", "upgrade-refused-live-object", format!("{how} Weak::upgrade returned None for live object {o}"));
                    }
                }
            }
        }
    }

    pub fn observe(&mut self) {
        let mut snap: Buf<256> = Buf::new();
        let mut seen: Set = 0;
        // strong handles held outside
        for o in self.mon.ids() {
            let n = w().ext[o as usize].len();
            if n as u8 != self.mon.ext[o as usize] {
                self.viol("MACHINERY", "outside-handle-count-mismatch", format!("harness holds {n} handles to {o}, monitor {}", self.mon.ext[o as usize]));
                continue;
            }
            for i in 0..n {
                let hp = &w().ext[o as usize][i] as *const Rc<Node>;
                let h: &Rc<Node> = unsafe { &*hp };
                if i > 0 {
                    let first: &Rc<Node> = unsafe { &*(&w().ext[o as usize][0] as *const Rc<Node>) };
                    if !Rc::ptr_eq(h, first) {
                        self.viol("K6", "ptr_eq-disagrees", format!("two handles to object {o} are not ptr_eq"));
                    }
                }
                self.visit(h, o, &mut seen, "outside", &mut snap);
            }
        }
        // values the program unwrapped still hold handles
        for o in self.mon.ids() {
            if self.mon.status[o as usize] == Status::Unwrapped {
                let np = w().unwrapped[o as usize].as_ref().unwrap() as *const Node;
                let node: &Node = unsafe { &*np };
                let n = node.slots.borrow().len();
                for i in 0..n {
                    let (t, c) = {
                        let s = node.slots.borrow();
                        (s[i].target, s[i].handle() as *const Rc<Node>)
                    };
                    let child: &Rc<Node> = unsafe { &*c };
                    self.visit(child, t, &mut seen, "stored-in-unwrapped", &mut snap);
                }
            }
        }
        // Weak handles held outside
        for o in self.mon.ids() {
            let n = w().extw[o as usize].len();
            if n as u8 != self.mon.extw[o as usize] {
                self.viol("MACHINERY", "outside-weak-count-mismatch", format!("harness holds {n} Weak to {o}, monitor {}", self.mon.extw[o as usize]));
                continue;
            }
            for i in 0..n {
                let wp = &w().extw[o as usize][i] as *const Weak<Node>;
                let wk: &Weak<Node> = unsafe { &*wp };
                if i > 0 {
                    let first: &Weak<Node> = unsafe { &*(&w().extw[o as usize][0] as *const Weak<Node>) };
                    if !wk.ptr_eq(first) {
                        self.viol("K6", "weak-ptr_eq-disagrees", format!("two Weak handles to object {o} are not ptr_eq"));
                    }
                }
                self.check_weak(wk, o, "outside");
            }
        }
        // allocations: K1 (live objects are allocated), K4/K5 (dead ones are released iff no Weak remains)
        let mut all_dead = true;
        for o in self.mon.ids() {
            let slot = galloc::slot_of_addr(w().addr[o as usize]).unwrap();
            let state = galloc::st().slot_state[slot];
            let weak = self.mon.weak(o);
            match self.mon.status[o as usize] {
                Status::Live => {
                    all_dead = false;
                    if state != SlotState::Live {
                        self.viol("K1", "live-object-allocation-released", format!("allocation of live object {o} was released"));
                    }
                }
                Status::Unwrapped => {
                    all_dead = false;
                    self.check_dead_alloc(o, state, weak);
                }
                Status::Destroyed | Status::Stolen => self.check_dead_alloc(o, state, weak),
                Status::Absent => {}
            }
        }
        if all_dead && !self.mon.panicked {
            let bytes = galloc::st().live_bytes;
            if bytes != 0 {
                let consumed = self.mon.consumed_with_links != 0;
                self.viol(
                    if consumed { "K12" } else { "K4" },
                    if consumed { "bookkeeping-of-given-up-allocation-leaked" } else { "heap-not-returned" },
                    format!("every object is destroyed but {bytes} bytes in {} block(s) allocated during the history are still live", galloc::live_blocks()),
                );
            }
            self.out.all_dead_checked += 1;
        }
        self.note_viol_step();
        // canonical key
        let mut kb: Buf<512> = Buf::new();
        self.mon.key_bytes(&mut kb);
        kb.extend_from_slice(snap.as_slice());
        let mut h1: u64 = 0xcbf29ce484222325;
        fnv(&mut h1, kb.as_slice());
        let mut h2: u64 = 0x84222325cbf29ce4;
        let n = kb.len;
        kb.b[..n].reverse();
        fnv(&mut h2, kb.as_slice());
        self.out.key = [h1, h2];
    }

    fn check_dead_alloc(&mut self, o: u8, state: SlotState, weak: u32) {
        if weak == 0 && state == SlotState::Live && !self.mon.panicked {
            self.viol("K4", "allocation-of-dead-object-not-released", format!("object {o} is destroyed and no Weak remains, its allocation is still live"));
        }
        if weak > 0 && state != SlotState::Live {
            self.viol("K5", "allocation-released-while-weak-exists", format!("allocation of destroyed object {o} was released although {weak} Weak handle(s) remain"));
        }
    }

    // ------------------------------------------------------------------
    // closing probe
    // ------------------------------------------------------------------

    /// Drop every outside strong handle (ascending ids), every unwrapped value,
    /// then every outside Weak. Returns a digest of what each step destroyed.
    pub fn probe(&mut self) -> u64 {
        let mut d: u64 = 0xcbf29ce484222325;
        for o in 0..self.mon.n {
            while self.mon.ext[o as usize] > 0 && self.mon.viol.iter().all(|v| soft(v.clause)) {
                self.step(Op::Drop(o));
                fnv(&mut d, &[0, o, self.out.died_last]);
            }
        }
        for o in 0..self.mon.n {
            if self.mon.status[o as usize] == Status::Unwrapped && self.mon.viol.iter().all(|v| soft(v.clause)) {
                self.step(Op::DropUnwrapped(o));
                fnv(&mut d, &[1, o, self.out.died_last]);
            }
        }
        for o in 0..self.mon.n {
            while self.mon.extw[o as usize] > 0 && self.mon.viol.iter().all(|v| soft(v.clause)) {
                self.step(Op::DropWeak(o));
                fnv(&mut d, &[2, o, self.out.died_last]);
            }
        }
        let live: Vec<u8> = (0..self.mon.n).map(|o| self.mon.live(o) as u8).collect();
        fnv(&mut d, &live);
        // heap bytes are comparable only when nothing is left alive (a leaked
        // object keeps buffers whose capacity depends on its past)
        if live.iter().all(|&l| l == 0) {
            fnv(&mut d, &galloc::st().live_bytes.to_le_bytes());
        }
        d
    }
}

/// find a strong handle to `o` stored in a value reachable from outside handles; clone it
fn find_stored(o: u8) -> Option<Rc<Node>> {
    fn walk(h: &Rc<Node>, id: u8, o: u8, seen: &mut u8) -> Option<Rc<Node>> {
        if *seen & (1 << id) != 0 {
            return None;
        }
        *seen |= 1 << id;
        let slots = h.slots.borrow();
        for s in slots.iter() {
            if s.target == o {
                return Some(Rc::clone(s.handle()));
            }
        }
        for s in slots.iter() {
            if let Some(r) = walk(s.handle(), s.target, o, seen) {
                return Some(r);
            }
        }
        None
    }
    let mut seen = 0u8;
    for p in 0..MAXN as u8 {
        if let Some(h) = w().ext[p as usize].first() {
            if let Some(r) = walk(h, p, o, &mut seen) {
                return Some(r);
            }
        }
    }
    for p in 0..MAXN {
        if let Some(node) = w().unwrapped[p].as_ref() {
            let slots = node.slots.borrow();
            for s in slots.iter() {
                if s.target == o {
                    return Some(Rc::clone(s.handle()));
                }
                if let Some(r) = walk(s.handle(), s.target, o, &mut seen) {
                    return Some(r);
                }
            }
        }
    }
    None
}

/// Violations after which the state of program and library is still well
/// defined (something was not collected, not released, miscounted or
/// mis-recorded): the explorer reports them and keeps exploring from the state,
/// so that a later violation of another property on the same path is not hidden.
/// Everything else (a reachable object destroyed, a destructor run twice, a
/// memory error, a wrong Weak answer, a machinery error) ends the path.
pub fn soft(clause: &str) -> bool {
    matches!(clause, "K3" | "K4" | "K8" | "K9" | "K14")
}

/// Execute a whole history under one layout. The oracle runs after every step.
/// If `probe` is set the closing probe follows the last operation.
pub fn run_history(cfg: &crate::ops::Config, layout_index: u16, ops: &[Op], probe: bool, verbose: bool, check_cost: bool) -> (Mon, Outcome) {
    run_history_from(cfg, layout_index, ops, 0, probe, verbose, check_cost)
}

/// Like `run_history`, but the first `validated` operations are a prefix that
/// was already executed and observed step by step (as a transition of an
/// earlier BFS level, under this same layout): it is replayed with the monitor
/// in lock-step but without re-observing the implementation after each call.
/// Observation never changes the state of the library for a history without
/// violations (it only reads, and the temporary handles it drops belong to
/// reachable objects), so the state reached is the same.
pub fn run_history_from(cfg: &crate::ops::Config, layout_index: u16, ops: &[Op], validated: usize, probe: bool, verbose: bool, check_cost: bool) -> (Mon, Outcome) {
    let mut ex = Exec::new(cfg, layout_index);
    ex.verbose = verbose;
    ex.check_cost = check_cost;
    for (i, &op) in ops.iter().enumerate() {
        ex.observing = i >= validated;
        unsafe { *BENIGN_ACTIVE.0.get() = *BENIGN_CLONE_OWN.0.get() && i >= validated };
        ex.step(op);
        if i < validated {
            // the prefix was explored (and its violations, all of the kind that
            // leaves the state well defined, were reported) at an earlier level
            if ex.mon.viol.iter().any(|v| !soft(v.clause)) {
                break;
            }
            ex.mon.viol.clear();
            ex.out.viol_step = None;
        } else if !ex.mon.viol.is_empty() {
            break;
        }
    }
    ex.observing = true;
    unsafe { *BENIGN_ACTIVE.0.get() = false };
    let key = ex.out.key;
    let died = ex.out.died_last;
    let mon_at_end = ex.mon.clone();
    if probe && ex.mon.viol.iter().all(|v| soft(v.clause)) {
        let d = ex.probe();
        ex.out.probe_digest = d;
    }
    ex.out.key = key;
    ex.out.died_last = died;
    let (_mon_after_probe, out) = ex.finish();
    (mon_at_end, out)
}
