//! Global allocator of the harness.
//!
//! While `TRACK` is off it is the system allocator. While `TRACK` is on (the
//! explorer is executing calls of the crate under test) every allocation is
//! served from memory the harness owns:
//!
//! * the allocation of an `RcBox` goes to a *slot* of the box arena chosen by
//!   the explorer (`set_next_slot`), so object addresses - and with them the
//!   FxHash iteration order of every link table - are an input of the
//!   execution, not an accident of malloc;
//! * everything else (link-table storage, payload buffers, panic payloads)
//!   comes from a bump heap that never reuses memory inside one execution.
//!
//! Freed memory is poisoned (ASan build) or filled with a pattern (plain
//! build) and never handed out again before `reset`, so every access through a
//! stale pointer is either an ASan report or deterministic garbage. The
//! allocator itself detects double and invalid frees and counts calls/bytes.

use std::alloc::{GlobalAlloc, Layout, System};
use std::cell::UnsafeCell;

pub const SLOT_STRIDE: usize = 256;
pub const SLOTS: usize = 4096;
const HEAP_BYTES: usize = 4 << 20;
const GAP: usize = 32;
const MAX_LIVE: usize = 4096;

/// Both arenas live at fixed virtual addresses (mapped by `init`), so that
/// object addresses - which the crate hashes - are the same in every process,
/// whatever ASLR does and however the harness binary changes. The addresses
/// are inside AddressSanitizer's "high application memory" range on x86_64.
const BOXES_BASE: usize = 0x2000_0000_0000;
const HEAP_BASE: usize = 0x2000_4000_0000;

extern "C" {
    fn mmap(addr: *mut u8, len: usize, prot: i32, flags: i32, fd: i32, off: i64) -> *mut u8;
}

fn map_fixed(addr: usize, len: usize) {
    const PROT_READ: i32 = 1;
    const PROT_WRITE: i32 = 2;
    const MAP_PRIVATE: i32 = 0x02;
    const MAP_ANONYMOUS: i32 = 0x20;
    const MAP_FIXED_NOREPLACE: i32 = 0x10_0000;
    let p = unsafe { mmap(addr as *mut u8, len, PROT_READ | PROT_WRITE, MAP_PRIVATE | MAP_ANONYMOUS | MAP_FIXED_NOREPLACE, -1, 0) };
    assert!(p as usize == addr, "cannot map the harness arena at {addr:#x}");
}

#[derive(Clone, Copy, PartialEq, Eq, Debug)]
pub enum SlotState {
    Unused,
    Live,
    Freed,
}

pub struct State {
    pub track: bool,
    next_slot: Option<usize>,
    box_size: usize,
    pub slot_state: [SlotState; SLOTS],
    /// bit 0: value moved out, bit 1: links moved out (set by the crate's moved-out hook)
    pub slot_moved: [u8; SLOTS],
    used: [u16; 32],
    nused: usize,
    bump: usize,
    high_water: usize,
    live: [(usize, usize); MAX_LIVE],
    nlive: usize,
    pub live_bytes: usize,
    pub allocs: usize,
    pub frees: usize,
    pub box_allocs: usize,
    pub box_frees: usize,
    /// first allocator-level error of this execution (double free, invalid free, ...)
    pub error: Option<&'static str>,
    pub error_addr: usize,
}

struct Shared(UnsafeCell<State>);
unsafe impl Sync for Shared {}

static STATE: Shared = Shared(UnsafeCell::new(State {
    track: false,
    next_slot: None,
    box_size: 0,
    slot_state: [SlotState::Unused; SLOTS],
    slot_moved: [0; SLOTS],
    used: [0; 32],
    nused: 0,
    bump: 0,
    high_water: 0,
    live: [(0, 0); MAX_LIVE],
    nlive: 0,
    live_bytes: 0,
    allocs: 0,
    frees: 0,
    box_allocs: 0,
    box_frees: 0,
    error: None,
    error_addr: 0,
}));

/// Only the (single-threaded) worker ever turns tracking on; the coordinator's
/// threads never touch anything but `track == false`.
#[inline]
pub fn st() -> &'static mut State {
    unsafe { &mut *STATE.0.get() }
}

#[cfg(feature = "asan")]
extern "C" {
    fn __asan_poison_memory_region(addr: *const u8, size: usize);
    fn __asan_unpoison_memory_region(addr: *const u8, size: usize);
}

#[inline]
pub fn poison(addr: *mut u8, size: usize, pattern: u8) {
    #[cfg(feature = "asan")]
    unsafe {
        let _ = pattern;
        __asan_poison_memory_region(addr, size);
    }
    #[cfg(not(feature = "asan"))]
    unsafe {
        std::ptr::write_bytes(addr, pattern, size);
    }
}

#[inline]
pub fn unpoison(addr: *mut u8, size: usize) {
    #[cfg(feature = "asan")]
    unsafe {
        __asan_unpoison_memory_region(addr, size);
    }
    #[cfg(not(feature = "asan"))]
    {
        let _ = (addr, size);
    }
}

pub fn boxes_base() -> usize {
    BOXES_BASE
}

fn heap_base() -> usize {
    HEAP_BASE
}

pub fn slot_addr(slot: usize) -> usize {
    boxes_base() + slot * SLOT_STRIDE
}

pub fn slot_of_addr(addr: usize) -> Option<usize> {
    let b = boxes_base();
    if addr >= b && addr < b + SLOTS * SLOT_STRIDE {
        Some((addr - b) / SLOT_STRIDE)
    } else {
        None
    }
}

/// One-time initialisation: size of the `RcBox` type the arena serves.
pub fn init(box_size: usize) {
    assert!(box_size <= SLOT_STRIDE - 16, "RcBox too large for arena stride");
    let s = st();
    s.box_size = box_size;
    map_fixed(BOXES_BASE, SLOTS * SLOT_STRIDE);
    map_fixed(HEAP_BASE, HEAP_BYTES);
    poison(boxes_base() as *mut u8, SLOTS * SLOT_STRIDE, 0xEE);
    poison(heap_base() as *mut u8, HEAP_BYTES, 0xEE);
    s.high_water = 0;
}

/// Forget everything about the previous execution. Objects it leaked are
/// abandoned; their memory is re-poisoned.
pub fn reset() {
    let s = st();
    assert!(!s.track);
    for k in 0..s.nused {
        let i = s.used[k] as usize;
        poison(slot_addr(i) as *mut u8, SLOT_STRIDE, 0xEE);
        s.slot_state[i] = SlotState::Unused;
        s.slot_moved[i] = 0;
    }
    s.nused = 0;
    if s.high_water > 0 {
        poison(heap_base() as *mut u8, s.high_water, 0xEE);
    }
    s.bump = 0;
    s.high_water = 0;
    s.nlive = 0;
    s.live_bytes = 0;
    s.allocs = 0;
    s.frees = 0;
    s.box_allocs = 0;
    s.box_frees = 0;
    s.next_slot = None;
    s.error = None;
    s.error_addr = 0;
}

pub fn set_next_slot(slot: usize) {
    let s = st();
    assert!(s.slot_state[slot] == SlotState::Unused, "slot reused inside one execution");
    assert!(s.nused < s.used.len(), "too many boxes in one execution");
    s.used[s.nused] = slot as u16;
    s.nused += 1;
    s.next_slot = Some(slot);
}

pub fn next_slot_pending() -> bool {
    st().next_slot.is_some()
}

pub fn live_blocks() -> usize {
    st().nlive
}

/// RAII guard that turns tracking on.
pub struct Tracking(bool);
impl Tracking {
    pub fn on() -> Tracking {
        let s = st();
        let prev = s.track;
        s.track = true;
        Tracking(prev)
    }
}
impl Drop for Tracking {
    fn drop(&mut self) {
        st().track = self.0;
    }
}

/// RAII guard that turns tracking off (harness bookkeeping inside an execution).
pub struct Untracked(bool);
impl Untracked {
    pub fn new() -> Untracked {
        let s = st();
        let prev = s.track;
        s.track = false;
        Untracked(prev)
    }
}
impl Drop for Untracked {
    fn drop(&mut self) {
        st().track = self.0;
    }
}

fn flag(s: &mut State, what: &'static str, addr: usize) {
    if s.error.is_none() {
        s.error = Some(what);
        s.error_addr = addr;
    }
}

pub struct Galloc;

unsafe impl GlobalAlloc for Galloc {
    unsafe fn alloc(&self, layout: Layout) -> *mut u8 {
        let s = st();
        if !s.track {
            return System.alloc(layout);
        }
        if let Some(slot) = s.next_slot {
            if layout.size() == s.box_size {
                s.next_slot = None;
                s.slot_state[slot] = SlotState::Live;
                s.box_allocs += 1;
                s.allocs += 1;
                let p = slot_addr(slot) as *mut u8;
                unpoison(p, layout.size());
                return p;
            }
        }
        let align = layout.align().max(16);
        let start = (s.bump + GAP + align - 1) & !(align - 1);
        let end = start + ((layout.size() + 15) & !15);
        if end > HEAP_BYTES || s.nlive == MAX_LIVE {
            flag(s, "harness-heap-exhausted", 0);
            return std::ptr::null_mut();
        }
        s.bump = end;
        if end > s.high_water {
            s.high_water = end;
        }
        let p = (heap_base() + start) as *mut u8;
        unpoison(p, layout.size());
        s.live[s.nlive] = (p as usize, layout.size());
        s.nlive += 1;
        s.live_bytes += layout.size();
        s.allocs += 1;
        p
    }

    unsafe fn dealloc(&self, ptr: *mut u8, layout: Layout) {
        let s = st();
        let addr = ptr as usize;
        if let Some(slot) = slot_of_addr(addr) {
            if addr != slot_addr(slot) {
                flag(s, "invalid-free-inside-box", addr);
                return;
            }
            match s.slot_state[slot] {
                SlotState::Live => {
                    s.slot_state[slot] = SlotState::Freed;
                    s.box_frees += 1;
                    s.frees += 1;
                    poison(ptr, SLOT_STRIDE, 0xDD);
                }
                SlotState::Freed => flag(s, "double-free-of-box", addr),
                SlotState::Unused => flag(s, "free-of-unallocated-box", addr),
            }
            return;
        }
        let hb = heap_base();
        if addr >= hb && addr < hb + HEAP_BYTES {
            let mut i = s.nlive;
            while i > 0 {
                i -= 1;
                if s.live[i].0 == addr {
                    let size = s.live[i].1;
                    if size != layout.size() {
                        flag(s, "free-with-wrong-size", addr);
                    }
                    s.live[i] = s.live[s.nlive - 1];
                    s.nlive -= 1;
                    s.live_bytes -= size;
                    s.frees += 1;
                    poison(ptr, (size + 15) & !15, 0xDD);
                    return;
                }
            }
            flag(s, "double-or-invalid-free", addr);
            return;
        }
        System.dealloc(ptr, layout);
    }
}
