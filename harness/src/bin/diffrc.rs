//! C07: without adoptions `cactusref::Rc`/`Weak` behave exactly like
//! `std::rc::Rc`/`Weak`.
//!
//! Breadth-first search over straight-line programs of the shared API. Every
//! program is executed on both implementations through one generic
//! interpreter (`Family`), the observation traces and destructor logs are
//! compared step by step, and a small reference-count model (std's documented
//! semantics) supplies enabledness and the canonical state key and is itself
//! compared with what std reports.
//!
//!   diffrc explore --allocs A --x X --w W --stored S --out summary.json [--threads N]
//!   diffrc replay --program "<cmds>"

use std::cell::{Cell, RefCell};
use std::collections::HashSet;
use std::fmt;
use std::hash::{Hash, Hasher};
use std::pin::Pin;
use std::sync::Mutex;
use std::time::Instant;

// ----------------------------------------------------------------------
// the two implementations behind one interface
// ----------------------------------------------------------------------

pub trait Family: 'static {
    const NAME: &'static str;
    type Rc<T>;
    type Weak<T>;
    fn new<T>(v: T) -> Self::Rc<T>;
    fn from_t<T>(v: T) -> Self::Rc<T>;
    fn from_box<T>(v: Box<T>) -> Self::Rc<T>;
    fn default<T: Default>() -> Self::Rc<T>;
    fn new_uninit_write<T>(v: T) -> Self::Rc<T>;
    fn pinned<T>(v: T) -> Self::Rc<T>;
    fn clone<T>(r: &Self::Rc<T>) -> Self::Rc<T>;
    fn deref<T>(r: &Self::Rc<T>) -> &T;
    fn downgrade<T>(r: &Self::Rc<T>) -> Self::Weak<T>;
    fn upgrade<T>(w: &Self::Weak<T>) -> Option<Self::Rc<T>>;
    fn weak_clone<T>(w: &Self::Weak<T>) -> Self::Weak<T>;
    fn weak_new<T>() -> Self::Weak<T>;
    fn weak_default<T>() -> Self::Weak<T>;
    fn strong_count<T>(r: &Self::Rc<T>) -> usize;
    fn weak_count<T>(r: &Self::Rc<T>) -> usize;
    fn w_strong_count<T>(w: &Self::Weak<T>) -> usize;
    fn w_weak_count<T>(w: &Self::Weak<T>) -> usize;
    fn try_unwrap<T>(r: Self::Rc<T>) -> Result<T, Self::Rc<T>>;
    fn get_mut<T>(r: &mut Self::Rc<T>) -> Option<&mut T>;
    fn make_mut<T: Clone>(r: &mut Self::Rc<T>) -> &mut T;
    fn into_raw<T>(r: Self::Rc<T>) -> *const T;
    unsafe fn from_raw<T>(p: *const T) -> Self::Rc<T>;
    fn as_ptr<T>(r: &Self::Rc<T>) -> *const T;
    unsafe fn inc_strong<T>(p: *const T);
    unsafe fn dec_strong<T>(p: *const T);
    fn ptr_eq<T>(a: &Self::Rc<T>, b: &Self::Rc<T>) -> bool;
    fn w_ptr_eq<T>(a: &Self::Weak<T>, b: &Self::Weak<T>) -> bool;
    fn w_as_ptr<T>(w: &Self::Weak<T>) -> *const T;
    fn w_into_raw<T>(w: Self::Weak<T>) -> *const T;
    unsafe fn w_from_raw<T>(p: *const T) -> Self::Weak<T>;
    fn eq<T: PartialEq>(a: &Self::Rc<T>, b: &Self::Rc<T>) -> bool;
    fn ne<T: PartialEq>(a: &Self::Rc<T>, b: &Self::Rc<T>) -> bool;
    fn lt<T: PartialOrd>(a: &Self::Rc<T>, b: &Self::Rc<T>) -> bool;
    fn ge<T: PartialOrd>(a: &Self::Rc<T>, b: &Self::Rc<T>) -> bool;
    fn cmp<T: Ord>(a: &Self::Rc<T>, b: &Self::Rc<T>) -> i8;
    fn hash<T: Hash>(a: &Self::Rc<T>) -> u64;
    fn display<T: fmt::Display>(a: &Self::Rc<T>) -> String;
    fn debug<T: fmt::Debug>(a: &Self::Rc<T>) -> String;
    fn w_debug<T: fmt::Debug>(a: &Self::Weak<T>) -> String;
    fn pointer<T>(a: &Self::Rc<T>) -> String;
    fn borrow_asref<T>(a: &Self::Rc<T>) -> (*const T, *const T);
}

macro_rules! impl_family {
    ($name:ident, $label:expr, $m:ident) => {
        pub struct $name;
        impl Family for $name {
            const NAME: &'static str = $label;
            type Rc<T> = $m::Rc<T>;
            type Weak<T> = $m::Weak<T>;
            fn new<T>(v: T) -> Self::Rc<T> {
                $m::Rc::new(v)
            }
            fn from_t<T>(v: T) -> Self::Rc<T> {
                $m::Rc::from(v)
            }
            fn from_box<T>(v: Box<T>) -> Self::Rc<T> {
                $m::Rc::from(v)
            }
            fn default<T: Default>() -> Self::Rc<T> {
                Default::default()
            }
            fn new_uninit_write<T>(v: T) -> Self::Rc<T> {
                let mut r = $m::Rc::<T>::new_uninit();
                unsafe {
                    $m::Rc::get_mut(&mut r).unwrap().as_mut_ptr().write(v);
                    r.assume_init()
                }
            }
            fn pinned<T>(v: T) -> Self::Rc<T> {
                let p: Pin<$m::Rc<T>> = $m::Rc::pin(v);
                // the value is never moved out of the allocation afterwards
                unsafe { Pin::into_inner_unchecked(p) }
            }
            fn clone<T>(r: &Self::Rc<T>) -> Self::Rc<T> {
                $m::Rc::clone(r)
            }
            fn deref<T>(r: &Self::Rc<T>) -> &T {
                &**r
            }
            fn downgrade<T>(r: &Self::Rc<T>) -> Self::Weak<T> {
                $m::Rc::downgrade(r)
            }
            fn upgrade<T>(w: &Self::Weak<T>) -> Option<Self::Rc<T>> {
                w.upgrade()
            }
            fn weak_clone<T>(w: &Self::Weak<T>) -> Self::Weak<T> {
                $m::Weak::clone(w)
            }
            fn weak_new<T>() -> Self::Weak<T> {
                $m::Weak::new()
            }
            fn weak_default<T>() -> Self::Weak<T> {
                Default::default()
            }
            fn strong_count<T>(r: &Self::Rc<T>) -> usize {
                $m::Rc::strong_count(r)
            }
            fn weak_count<T>(r: &Self::Rc<T>) -> usize {
                $m::Rc::weak_count(r)
            }
            fn w_strong_count<T>(w: &Self::Weak<T>) -> usize {
                w.strong_count()
            }
            fn w_weak_count<T>(w: &Self::Weak<T>) -> usize {
                w.weak_count()
            }
            fn try_unwrap<T>(r: Self::Rc<T>) -> Result<T, Self::Rc<T>> {
                $m::Rc::try_unwrap(r)
            }
            fn get_mut<T>(r: &mut Self::Rc<T>) -> Option<&mut T> {
                $m::Rc::get_mut(r)
            }
            fn make_mut<T: Clone>(r: &mut Self::Rc<T>) -> &mut T {
                $m::Rc::make_mut(r)
            }
            fn into_raw<T>(r: Self::Rc<T>) -> *const T {
                $m::Rc::into_raw(r)
            }
            unsafe fn from_raw<T>(p: *const T) -> Self::Rc<T> {
                $m::Rc::from_raw(p)
            }
            fn as_ptr<T>(r: &Self::Rc<T>) -> *const T {
                $m::Rc::as_ptr(r)
            }
            unsafe fn inc_strong<T>(p: *const T) {
                $m::Rc::increment_strong_count(p)
            }
            unsafe fn dec_strong<T>(p: *const T) {
                $m::Rc::decrement_strong_count(p)
            }
            fn ptr_eq<T>(a: &Self::Rc<T>, b: &Self::Rc<T>) -> bool {
                $m::Rc::ptr_eq(a, b)
            }
            fn w_ptr_eq<T>(a: &Self::Weak<T>, b: &Self::Weak<T>) -> bool {
                a.ptr_eq(b)
            }
            fn w_as_ptr<T>(w: &Self::Weak<T>) -> *const T {
                w.as_ptr()
            }
            fn w_into_raw<T>(w: Self::Weak<T>) -> *const T {
                w.into_raw()
            }
            unsafe fn w_from_raw<T>(p: *const T) -> Self::Weak<T> {
                $m::Weak::from_raw(p)
            }
            fn eq<T: PartialEq>(a: &Self::Rc<T>, b: &Self::Rc<T>) -> bool {
                a == b
            }
            fn ne<T: PartialEq>(a: &Self::Rc<T>, b: &Self::Rc<T>) -> bool {
                a != b
            }
            fn lt<T: PartialOrd>(a: &Self::Rc<T>, b: &Self::Rc<T>) -> bool {
                a < b
            }
            fn ge<T: PartialOrd>(a: &Self::Rc<T>, b: &Self::Rc<T>) -> bool {
                a >= b
            }
            fn cmp<T: Ord>(a: &Self::Rc<T>, b: &Self::Rc<T>) -> i8 {
                a.cmp(b) as i8
            }
            fn hash<T: Hash>(a: &Self::Rc<T>) -> u64 {
                let mut h = std::collections::hash_map::DefaultHasher::new();
                a.hash(&mut h);
                h.finish()
            }
            fn display<T: fmt::Display>(a: &Self::Rc<T>) -> String {
                format!("{a}")
            }
            fn debug<T: fmt::Debug>(a: &Self::Rc<T>) -> String {
                format!("{a:?}")
            }
            fn w_debug<T: fmt::Debug>(a: &Self::Weak<T>) -> String {
                format!("{a:?}")
            }
            fn pointer<T>(a: &Self::Rc<T>) -> String {
                format!("{a:p}")
            }
            fn borrow_asref<T>(a: &Self::Rc<T>) -> (*const T, *const T) {
                let b: &T = std::borrow::Borrow::borrow(a);
                let r: &T = a.as_ref();
                (b as *const T, r as *const T)
            }
        }
    };
}

mod cactus {
    pub use cactusref::{Rc, Weak};
}
mod stdrc {
    pub use std::rc::{Rc, Weak};
}
impl_family!(Cactus, "cactusref", cactus);
impl_family!(Std, "std", stdrc);

// ----------------------------------------------------------------------
// payload
// ----------------------------------------------------------------------

thread_local! {
    static DTORS: RefCell<Vec<u32>> = const { RefCell::new(Vec::new()) };
    static NEXT_VID: Cell<u32> = const { Cell::new(0) };
}

fn fresh_vid() -> u32 {
    NEXT_VID.with(|c| {
        let v = c.get();
        c.set(v + 1);
        v
    })
}

pub struct Val<F: Family> {
    vid: u32,
    n: Cell<i32>,
    slots: RefCell<Vec<(u8, F::Rc<Val<F>>)>>,
    wslots: RefCell<Vec<(u8, F::Weak<Val<F>>)>>,
}

impl<F: Family> Val<F> {
    fn new() -> Self {
        Val { vid: fresh_vid(), n: Cell::new(0), slots: RefCell::new(Vec::new()), wslots: RefCell::new(Vec::new()) }
    }
}
impl<F: Family> Default for Val<F> {
    fn default() -> Self {
        Val::new()
    }
}
impl<F: Family> Drop for Val<F> {
    fn drop(&mut self) {
        DTORS.with(|d| d.borrow_mut().push(self.vid));
    }
}
impl<F: Family> Clone for Val<F> {
    fn clone(&self) -> Self {
        Val {
            vid: fresh_vid(),
            n: Cell::new(self.n.get()),
            slots: RefCell::new(self.slots.borrow().iter().map(|(t, h)| (*t, F::clone(h))).collect()),
            wslots: RefCell::new(self.wslots.borrow().iter().map(|(t, h)| (*t, F::weak_clone(h))).collect()),
        }
    }
}
impl<F: Family> PartialEq for Val<F> {
    fn eq(&self, o: &Self) -> bool {
        self.n.get() == o.n.get()
    }
}
impl<F: Family> Eq for Val<F> {}
impl<F: Family> PartialOrd for Val<F> {
    fn partial_cmp(&self, o: &Self) -> Option<std::cmp::Ordering> {
        Some(self.cmp(o))
    }
}
impl<F: Family> Ord for Val<F> {
    fn cmp(&self, o: &Self) -> std::cmp::Ordering {
        (self.n.get(), self.vid).cmp(&(o.n.get(), o.vid))
    }
}
impl<F: Family> Hash for Val<F> {
    fn hash<H: Hasher>(&self, h: &mut H) {
        self.n.get().hash(h);
        self.vid.hash(h);
    }
}
impl<F: Family> fmt::Display for Val<F> {
    fn fmt(&self, f: &mut fmt::Formatter<'_>) -> fmt::Result {
        write!(f, "val{}:{}", self.vid, self.n.get())
    }
}
impl<F: Family> fmt::Debug for Val<F> {
    fn fmt(&self, f: &mut fmt::Formatter<'_>) -> fmt::Result {
        write!(f, "Val({}, {})", self.vid, self.n.get())
    }
}

// ----------------------------------------------------------------------
// commands
// ----------------------------------------------------------------------

#[derive(Clone, Copy, PartialEq, Eq, Debug, Hash)]
pub enum Cmd {
    /// 0 new, 1 From<T>, 2 From<Box<T>>, 3 Default, 4 new_uninit+write+assume_init, 5 pin
    New(u8),
    Clone(u8),
    Drop(u8),
    Downgrade(u8),
    Upgrade(u8),
    WeakClone(u8),
    WeakDrop(u8),
    /// 0 Weak::new, 1 Weak::default
    DanglingNew(u8),
    DanglingClone,
    DanglingDrop,
    Store(u8, u8),
    Take(u8, u8),
    StoreWeak(u8, u8),
    TakeWeak(u8, u8),
    TryUnwrapDrop(u8),
    GetMut(u8),
    MakeMut(u8),
    Raw(u8),
    IncStrong(u8),
    DecStrong(u8),
    WeakRaw(u8),
}

impl fmt::Display for Cmd {
    fn fmt(&self, f: &mut fmt::Formatter<'_>) -> fmt::Result {
        match self {
            Cmd::New(k) => write!(f, "new{k}"),
            Cmd::Clone(a) => write!(f, "clone:{a}"),
            Cmd::Drop(a) => write!(f, "drop:{a}"),
            Cmd::Downgrade(a) => write!(f, "downgrade:{a}"),
            Cmd::Upgrade(a) => write!(f, "upgrade:{a}"),
            Cmd::WeakClone(a) => write!(f, "weakclone:{a}"),
            Cmd::WeakDrop(a) => write!(f, "weakdrop:{a}"),
            Cmd::DanglingNew(k) => write!(f, "dangling{k}"),
            Cmd::DanglingClone => write!(f, "danglingclone"),
            Cmd::DanglingDrop => write!(f, "danglingdrop"),
            Cmd::Store(p, a) => write!(f, "store:{p}:{a}"),
            Cmd::Take(p, a) => write!(f, "take:{p}:{a}"),
            Cmd::StoreWeak(p, a) => write!(f, "storeweak:{p}:{a}"),
            Cmd::TakeWeak(p, a) => write!(f, "takeweak:{p}:{a}"),
            Cmd::TryUnwrapDrop(a) => write!(f, "tryunwrap:{a}"),
            Cmd::GetMut(a) => write!(f, "getmut:{a}"),
            Cmd::MakeMut(a) => write!(f, "makemut:{a}"),
            Cmd::Raw(a) => write!(f, "raw:{a}"),
            Cmd::IncStrong(a) => write!(f, "incstrong:{a}"),
            Cmd::DecStrong(a) => write!(f, "decstrong:{a}"),
            Cmd::WeakRaw(a) => write!(f, "weakraw:{a}"),
        }
    }
}

fn parse_cmd(s: &str) -> Cmd {
    let p: Vec<&str> = s.split(':').collect();
    let a = |i: usize| p[i].parse::<u8>().unwrap();
    match p[0] {
        "clone" => Cmd::Clone(a(1)),
        "drop" => Cmd::Drop(a(1)),
        "downgrade" => Cmd::Downgrade(a(1)),
        "upgrade" => Cmd::Upgrade(a(1)),
        "weakclone" => Cmd::WeakClone(a(1)),
        "weakdrop" => Cmd::WeakDrop(a(1)),
        "danglingclone" => Cmd::DanglingClone,
        "danglingdrop" => Cmd::DanglingDrop,
        "store" => Cmd::Store(a(1), a(2)),
        "take" => Cmd::Take(a(1), a(2)),
        "storeweak" => Cmd::StoreWeak(a(1), a(2)),
        "takeweak" => Cmd::TakeWeak(a(1), a(2)),
        "tryunwrap" => Cmd::TryUnwrapDrop(a(1)),
        "getmut" => Cmd::GetMut(a(1)),
        "makemut" => Cmd::MakeMut(a(1)),
        "raw" => Cmd::Raw(a(1)),
        "incstrong" => Cmd::IncStrong(a(1)),
        "decstrong" => Cmd::DecStrong(a(1)),
        "weakraw" => Cmd::WeakRaw(a(1)),
        x if x.starts_with("new") => Cmd::New(x[3..].parse().unwrap()),
        x if x.starts_with("dangling") => Cmd::DanglingNew(x[8..].parse().unwrap()),
        x => panic!("bad command {x}"),
    }
}

fn prog_to_string(p: &[Cmd]) -> String {
    p.iter().map(|c| c.to_string()).collect::<Vec<_>>().join(",")
}

// ----------------------------------------------------------------------
// reference-count model (std's documented semantics)
// ----------------------------------------------------------------------

const MAXA: usize = 6;

#[derive(Clone, Default, PartialEq, Eq, Hash, Debug)]
struct Alloc {
    alive: bool,
    ext: u8,
    extw: u8,
    n: u8,
    slots: Vec<u8>,
    wslots: Vec<u8>,
}

#[derive(Clone, Default, PartialEq, Eq, Hash, Debug)]
struct Model {
    a: Vec<Alloc>,
    dangling: u8,
}

#[derive(Clone, Copy)]
struct Bounds {
    allocs: u8,
    x: u8,
    w: u8,
    stored: u8,
}

impl Model {
    fn strong(&self, t: u8) -> u32 {
        let mut s = self.a[t as usize].ext as u32;
        for p in &self.a {
            if p.alive {
                s += p.slots.iter().filter(|&&x| x == t).count() as u32;
            }
        }
        s
    }
    fn weak(&self, t: u8) -> u32 {
        let mut s = self.a[t as usize].extw as u32;
        for p in &self.a {
            if p.alive {
                s += p.wslots.iter().filter(|&&x| x == t).count() as u32;
            }
        }
        s
    }
    fn stored(&self) -> u32 {
        self.a.iter().filter(|p| p.alive).map(|p| (p.slots.len() + p.wslots.len()) as u32).sum()
    }
    /// value of `t` is dropped: release what it stores, in order
    fn destroy(&mut self, t: u8) {
        self.a[t as usize].alive = false;
        let slots = std::mem::take(&mut self.a[t as usize].slots);
        for s in slots {
            if self.a[s as usize].alive && self.strong(s) == 0 {
                self.destroy(s);
            }
        }
        self.a[t as usize].wslots.clear();
    }
    fn drop_strong(&mut self, t: u8) {
        self.a[t as usize].ext -= 1;
        if self.a[t as usize].alive && self.strong(t) == 0 {
            self.destroy(t);
        }
    }
    fn enabled(&self, b: &Bounds) -> Vec<Cmd> {
        let mut v = Vec::new();
        let n = self.a.len() as u8;
        if n < b.allocs {
            for k in 0..6 {
                v.push(Cmd::New(k));
            }
        }
        for t in 0..n {
            let al = &self.a[t as usize];
            if al.ext >= 1 {
                if al.ext < b.x {
                    v.push(Cmd::Clone(t));
                    v.push(Cmd::IncStrong(t));
                }
                v.push(Cmd::Drop(t));
                v.push(Cmd::DecStrong(t));
                if self.weak(t) < b.w as u32 {
                    v.push(Cmd::Downgrade(t));
                }
                v.push(Cmd::TryUnwrapDrop(t));
                v.push(Cmd::GetMut(t));
                let unique = self.strong(t) == 1 && self.weak(t) == 0;
                if unique || n < b.allocs {
                    v.push(Cmd::MakeMut(t));
                }
                v.push(Cmd::Raw(t));
            }
            if al.extw >= 1 {
                if al.ext < b.x {
                    v.push(Cmd::Upgrade(t));
                }
                if self.weak(t) < b.w as u32 {
                    v.push(Cmd::WeakClone(t));
                }
                v.push(Cmd::WeakDrop(t));
                v.push(Cmd::WeakRaw(t));
            }
        }
        if self.dangling < 2 {
            v.push(Cmd::DanglingNew(0));
            v.push(Cmd::DanglingNew(1));
            if self.dangling >= 1 {
                v.push(Cmd::DanglingClone);
            }
        }
        if self.dangling >= 1 {
            v.push(Cmd::DanglingDrop);
        }
        for p in 0..n {
            if !self.a[p as usize].alive || self.a[p as usize].ext < 1 {
                continue;
            }
            for t in 0..n {
                let need = 1 + u8::from(p == t);
                if self.a[t as usize].ext >= need && self.stored() < b.stored as u32 {
                    v.push(Cmd::Store(p, t));
                }
                if self.a[p as usize].slots.contains(&t) && self.a[t as usize].ext <= b.x {
                    v.push(Cmd::Take(p, t));
                }
                if self.a[t as usize].extw >= 1 && self.stored() < b.stored as u32 {
                    v.push(Cmd::StoreWeak(p, t));
                }
                if self.a[p as usize].wslots.contains(&t) {
                    v.push(Cmd::TakeWeak(p, t));
                }
            }
        }
        v
    }
    /// apply a command; returns the expected boolean outcome where the API has one
    fn apply(&mut self, c: Cmd) -> Option<bool> {
        match c {
            Cmd::New(_) => {
                self.a.push(Alloc { alive: true, ext: 1, ..Default::default() });
                None
            }
            Cmd::Clone(t) | Cmd::IncStrong(t) => {
                self.a[t as usize].ext += 1;
                None
            }
            Cmd::Drop(t) | Cmd::DecStrong(t) => {
                self.drop_strong(t);
                None
            }
            Cmd::Downgrade(t) | Cmd::WeakClone(t) => {
                self.a[t as usize].extw += 1;
                None
            }
            Cmd::Upgrade(t) => {
                if self.a[t as usize].alive {
                    self.a[t as usize].ext += 1;
                    Some(true)
                } else {
                    Some(false)
                }
            }
            Cmd::WeakDrop(t) => {
                self.a[t as usize].extw -= 1;
                None
            }
            Cmd::DanglingNew(_) | Cmd::DanglingClone => {
                self.dangling += 1;
                None
            }
            Cmd::DanglingDrop => {
                self.dangling -= 1;
                None
            }
            Cmd::Store(p, t) => {
                self.a[t as usize].ext -= 1;
                self.a[p as usize].slots.push(t);
                None
            }
            Cmd::Take(p, t) => {
                let i = self.a[p as usize].slots.iter().rposition(|&x| x == t).unwrap();
                self.a[p as usize].slots.remove(i);
                self.a[t as usize].ext += 1;
                None
            }
            Cmd::StoreWeak(p, t) => {
                self.a[t as usize].extw -= 1;
                self.a[p as usize].wslots.push(t);
                None
            }
            Cmd::TakeWeak(p, t) => {
                let i = self.a[p as usize].wslots.iter().rposition(|&x| x == t).unwrap();
                self.a[p as usize].wslots.remove(i);
                self.a[t as usize].extw += 1;
                None
            }
            Cmd::TryUnwrapDrop(t) => {
                if self.strong(t) == 1 {
                    // value moved out, allocation given up, then the value is dropped
                    self.a[t as usize].ext = 0;
                    self.destroy(t);
                    Some(true)
                } else {
                    Some(false)
                }
            }
            Cmd::GetMut(t) => {
                if self.strong(t) == 1 && self.weak(t) == 0 {
                    self.a[t as usize].n = (self.a[t as usize].n + 1) % 3;
                    Some(true)
                } else {
                    Some(false)
                }
            }
            Cmd::MakeMut(t) => {
                let ti = t as usize;
                if self.strong(t) != 1 {
                    let mut b = Alloc { alive: true, ext: 1, n: self.a[ti].n, ..Default::default() };
                    b.slots = self.a[ti].slots.clone();
                    b.wslots = self.a[ti].wslots.clone();
                    b.n = (b.n + 1) % 3;
                    self.a.push(b);
                    self.a[ti].ext -= 1;
                } else if self.weak(t) != 0 {
                    let mut b = Alloc { alive: true, ext: 1, n: self.a[ti].n, ..Default::default() };
                    b.slots = std::mem::take(&mut self.a[ti].slots);
                    b.wslots = std::mem::take(&mut self.a[ti].wslots);
                    b.n = (b.n + 1) % 3;
                    self.a[ti].alive = false;
                    self.a[ti].ext = 0;
                    self.a.push(b);
                } else {
                    self.a[ti].n = (self.a[ti].n + 1) % 3;
                }
                None
            }
            Cmd::Raw(_) | Cmd::WeakRaw(_) => None,
        }
    }
    fn key(&self) -> u128 {
        let mut h1 = std::collections::hash_map::DefaultHasher::new();
        self.hash(&mut h1);
        let mut h2 = std::collections::hash_map::DefaultHasher::new();
        0xabcdu32.hash(&mut h2);
        self.hash(&mut h2);
        ((h1.finish() as u128) << 64) | h2.finish() as u128
    }
}

// ----------------------------------------------------------------------
// generic interpreter
// ----------------------------------------------------------------------

struct World<F: Family> {
    ext: Vec<Vec<F::Rc<Val<F>>>>,
    extw: Vec<Vec<F::Weak<Val<F>>>>,
    dangling: Vec<F::Weak<Val<F>>>,
}

type Trace = Vec<i64>;

fn shash(s: &str) -> i64 {
    let mut h = std::collections::hash_map::DefaultHasher::new();
    s.hash(&mut h);
    h.finish() as i64
}

impl<F: Family> World<F> {
    fn new() -> Self {
        World { ext: Vec::new(), extw: Vec::new(), dangling: Vec::new() }
    }

    fn new_alloc(&mut self, h: F::Rc<Val<F>>) {
        self.ext.push(vec![h]);
        self.extw.push(Vec::new());
    }

    /// executes one command; pushes API results into the trace
    fn exec(&mut self, c: Cmd, tr: &mut Trace) {
        match c {
            Cmd::New(k) => {
                let h = match k {
                    0 => F::new(Val::new()),
                    1 => F::from_t(Val::new()),
                    2 => F::from_box(Box::new(Val::new())),
                    3 => F::default(),
                    4 => F::new_uninit_write(Val::new()),
                    _ => F::pinned(Val::new()),
                };
                self.new_alloc(h);
            }
            Cmd::Clone(t) => {
                let h = F::clone(&self.ext[t as usize][0]);
                self.ext[t as usize].push(h);
            }
            Cmd::Drop(t) => {
                let h = self.ext[t as usize].pop().unwrap();
                drop(h);
            }
            Cmd::Downgrade(t) => {
                let w = F::downgrade(&self.ext[t as usize][0]);
                self.extw[t as usize].push(w);
            }
            Cmd::Upgrade(t) => match F::upgrade(&self.extw[t as usize][0]) {
                Some(h) => {
                    tr.push(1);
                    self.ext[t as usize].push(h);
                }
                None => tr.push(0),
            },
            Cmd::WeakClone(t) => {
                let w = F::weak_clone(&self.extw[t as usize][0]);
                self.extw[t as usize].push(w);
            }
            Cmd::WeakDrop(t) => {
                let w = self.extw[t as usize].pop().unwrap();
                drop(w);
            }
            Cmd::DanglingNew(k) => {
                let w = if k == 0 { F::weak_new() } else { F::weak_default() };
                self.dangling.push(w);
            }
            Cmd::DanglingClone => {
                let w = F::weak_clone(&self.dangling[0]);
                self.dangling.push(w);
            }
            Cmd::DanglingDrop => {
                let w = self.dangling.pop().unwrap();
                drop(w);
            }
            Cmd::Store(p, t) => {
                let h = self.ext[t as usize].pop().unwrap();
                F::deref(&self.ext[p as usize][0]).slots.borrow_mut().push((t, h));
            }
            Cmd::Take(p, t) => {
                let h = {
                    let v = F::deref(&self.ext[p as usize][0]);
                    let mut s = v.slots.borrow_mut();
                    let i = s.iter().rposition(|(x, _)| *x == t).unwrap();
                    s.remove(i).1
                };
                self.ext[t as usize].push(h);
            }
            Cmd::StoreWeak(p, t) => {
                let w = self.extw[t as usize].pop().unwrap();
                F::deref(&self.ext[p as usize][0]).wslots.borrow_mut().push((t, w));
            }
            Cmd::TakeWeak(p, t) => {
                let w = {
                    let v = F::deref(&self.ext[p as usize][0]);
                    let mut s = v.wslots.borrow_mut();
                    let i = s.iter().rposition(|(x, _)| *x == t).unwrap();
                    s.remove(i).1
                };
                self.extw[t as usize].push(w);
            }
            Cmd::TryUnwrapDrop(t) => {
                let h = self.ext[t as usize].pop().unwrap();
                match F::try_unwrap(h) {
                    Ok(v) => {
                        tr.push(1);
                        tr.push(v.n.get() as i64);
                        // any other outside handle would contradict Ok
                        drop(v);
                    }
                    Err(h) => {
                        tr.push(0);
                        self.ext[t as usize].push(h);
                    }
                }
            }
            Cmd::GetMut(t) => {
                let mut h = self.ext[t as usize].pop().unwrap();
                match F::get_mut(&mut h) {
                    Some(v) => {
                        v.n.set((v.n.get() + 1) % 3);
                        tr.push(1);
                    }
                    None => tr.push(0),
                }
                self.ext[t as usize].push(h);
            }
            Cmd::MakeMut(t) => {
                let mut h = self.ext[t as usize].pop().unwrap();
                let before = F::as_ptr(&h) as usize;
                {
                    let v = F::make_mut(&mut h);
                    v.n.set((v.n.get() + 1) % 3);
                }
                let moved = F::as_ptr(&h) as usize != before;
                tr.push(moved as i64);
                if moved {
                    self.new_alloc(h);
                } else {
                    self.ext[t as usize].push(h);
                }
            }
            Cmd::Raw(t) => {
                let h = self.ext[t as usize].pop().unwrap();
                let same = F::as_ptr(&h);
                let p = F::into_raw(h);
                tr.push((p == same) as i64);
                tr.push(unsafe { (*p).n.get() } as i64);
                let h = unsafe { F::from_raw(p) };
                self.ext[t as usize].push(h);
            }
            Cmd::IncStrong(t) => {
                let h = self.ext[t as usize].pop().unwrap();
                let p = F::into_raw(h);
                unsafe {
                    F::inc_strong(p);
                    self.ext[t as usize].push(F::from_raw(p));
                    self.ext[t as usize].push(F::from_raw(p));
                }
            }
            Cmd::DecStrong(t) => {
                let h = self.ext[t as usize].pop().unwrap();
                let p = F::into_raw(h);
                unsafe { F::dec_strong(p) };
            }
            Cmd::WeakRaw(t) => {
                let w = self.extw[t as usize].pop().unwrap();
                let ap = F::w_as_ptr(&w);
                let p = F::w_into_raw(w);
                tr.push((ap == p) as i64);
                if let Some(h) = self.ext[t as usize].first() {
                    tr.push((F::as_ptr(h) == p) as i64);
                }
                let w = unsafe { F::w_from_raw(p) };
                self.extw[t as usize].push(w);
            }
        }
    }

    fn observe_handle(&self, h: &F::Rc<Val<F>>, tr: &mut Trace, depth: u8) {
        let v = F::deref(h);
        tr.push(v.vid as i64);
        tr.push(v.n.get() as i64);
        tr.push(F::strong_count(h) as i64);
        tr.push(F::weak_count(h) as i64);
        tr.push(F::hash(h) as i64);
        tr.push(shash(&F::display(h)));
        tr.push(shash(&F::debug(h)));
        tr.push((F::pointer(h) == format!("{:p}", F::as_ptr(h))) as i64);
        let (b, r) = F::borrow_asref(h);
        tr.push((b == F::as_ptr(h) && r == b) as i64);
        if depth < 3 {
            for (t, s) in v.slots.borrow().iter() {
                tr.push(-1 - *t as i64);
                self.observe_handle(s, tr, depth + 1);
            }
            for (t, w) in v.wslots.borrow().iter() {
                tr.push(-100 - *t as i64);
                self.observe_weak(w, tr);
            }
        }
    }

    fn observe_weak(&self, w: &F::Weak<Val<F>>, tr: &mut Trace) {
        tr.push(F::w_strong_count(w) as i64);
        tr.push(F::w_weak_count(w) as i64);
        match F::upgrade(w) {
            Some(h) => {
                tr.push(1);
                tr.push(F::deref(&h).vid as i64);
                tr.push(F::strong_count(&h) as i64);
                tr.push((F::w_as_ptr(w) == F::as_ptr(&h)) as i64);
                drop(h);
            }
            None => tr.push(0),
        }
        // Debug of a Weak prints "(Weak)"
        tr.push(shash(&F::w_debug(w)));
    }

    fn observe(&self, tr: &mut Trace) {
        for (t, hs) in self.ext.iter().enumerate() {
            for (i, h) in hs.iter().enumerate() {
                tr.push(1000 + t as i64);
                self.observe_handle(h, tr, 0);
                if i > 0 {
                    tr.push(F::ptr_eq(h, &hs[0]) as i64);
                    tr.push((F::as_ptr(h) == F::as_ptr(&hs[0])) as i64);
                }
            }
        }
        // pairwise comparisons between the first handles of different allocations
        for (a, ha) in self.ext.iter().enumerate() {
            for (b, hb) in self.ext.iter().enumerate() {
                if a < b {
                    if let (Some(x), Some(y)) = (ha.first(), hb.first()) {
                        tr.push(F::eq(x, y) as i64);
                        tr.push(F::ne(x, y) as i64);
                        tr.push(F::lt(x, y) as i64);
                        tr.push(F::ge(x, y) as i64);
                        tr.push(F::cmp(x, y) as i64);
                        tr.push(F::ptr_eq(x, y) as i64);
                    }
                }
            }
        }
        for (t, ws) in self.extw.iter().enumerate() {
            for (i, w) in ws.iter().enumerate() {
                tr.push(2000 + t as i64);
                self.observe_weak(w, tr);
                if i > 0 {
                    tr.push(F::w_ptr_eq(w, &ws[0]) as i64);
                }
                if let Some(d) = self.dangling.first() {
                    tr.push(F::w_ptr_eq(w, d) as i64);
                }
            }
        }
        for (i, d) in self.dangling.iter().enumerate() {
            tr.push(3000);
            self.observe_weak(d, tr);
            if i > 0 {
                tr.push(F::w_ptr_eq(d, &self.dangling[0]) as i64);
            }
        }
    }

    /// tear everything down in a fixed order (the end of every program)
    fn finish(mut self, tr: &mut Trace) {
        for hs in self.ext.iter_mut() {
            while let Some(h) = hs.pop() {
                drop(h);
            }
        }
        for ws in self.extw.iter_mut() {
            while let Some(w) = ws.pop() {
                tr.push(F::w_strong_count(&w) as i64);
                drop(w);
            }
        }
        self.dangling.clear();
    }
}

/// one trace segment per command: API results, destructor log delta, and - for
/// the commands from index `observe_from` on - the full observation. (The
/// prefix of a program was observed command by command when it was itself
/// explored at an earlier level.)
fn run<F: Family>(prog: &[Cmd], observe_from: usize) -> Vec<Trace> {
    DTORS.with(|d| d.borrow_mut().clear());
    NEXT_VID.with(|c| c.set(0));
    let mut w: World<F> = World::new();
    let mut out = Vec::with_capacity(prog.len() + 1);
    let mut seen = 0usize;
    for (i, &c) in prog.iter().enumerate() {
        let mut tr = Trace::new();
        w.exec(c, &mut tr);
        if i >= observe_from {
            w.observe(&mut tr);
        }
        DTORS.with(|d| {
            let d = d.borrow();
            tr.push(-7777);
            for &v in &d[seen..] {
                tr.push(v as i64);
            }
            seen = d.len();
        });
        out.push(tr);
    }
    let mut tr = Trace::new();
    w.finish(&mut tr);
    DTORS.with(|d| {
        let d = d.borrow();
        tr.push(-7777);
        for &v in &d[seen..] {
            tr.push(v as i64);
        }
    });
    out.push(tr);
    out
}

/// model expectations that are visible in the std trace: the boolean API results
fn check_program(prog: &[Cmd], observe_from: usize) -> Result<(), String> {
    let a = run::<Std>(prog, observe_from);
    let b = run::<Cactus>(prog, observe_from);
    for (i, (x, y)) in a.iter().zip(b.iter()).enumerate() {
        if x != y {
            let what = if i < prog.len() { format!("after command #{i} ({})", prog[i]) } else { "during final teardown".to_string() };
            let pos = x.iter().zip(y.iter()).position(|(p, q)| p != q).unwrap_or(x.len().min(y.len()));
            return Err(format!("std and cactusref disagree {what}: observation #{pos} std={:?} cactusref={:?} (trace lengths {} / {})", x.get(pos), y.get(pos), x.len(), y.len()));
        }
    }
    // the model against std: boolean results of the last command
    let mut m = Model::default();
    for (i, &c) in prog.iter().enumerate() {
        let expect = m.apply(c);
        if let Some(e) = expect {
            let got = a[i][0] != 0;
            if got != e {
                return Err(format!("MODEL: reference model and std disagree on the result of command #{i} ({c}): model {e}, std {got}"));
            }
        }
    }
    Ok(())
}

// ----------------------------------------------------------------------
// fixed programs over other payload layouts (zero-sized, byte-sized, over-aligned)
// ----------------------------------------------------------------------

#[derive(Clone, Default, PartialEq, Eq, PartialOrd, Ord, Hash, Debug)]
struct Zst;
#[derive(Clone, Default, PartialEq, Eq, PartialOrd, Ord, Hash, Debug)]
#[repr(align(64))]
struct Wide(u8);

fn layout_program<F: Family, T: Clone + Default + PartialEq + fmt::Debug + Hash + 'static>(tr: &mut Trace) {
    for ctor in 0..5u8 {
        let mut a: F::Rc<T> = match ctor {
            0 => F::new(T::default()),
            1 => F::from_t(T::default()),
            2 => F::from_box(Box::new(T::default())),
            3 => F::default(),
            _ => F::new_uninit_write(T::default()),
        };
        let b = F::clone(&a);
        let w = F::downgrade(&a);
        tr.push(F::strong_count(&a) as i64);
        tr.push(F::weak_count(&a) as i64);
        tr.push((F::as_ptr(&a) as usize % std::mem::align_of::<T>().max(1)) as i64);
        tr.push((F::as_ptr(&a) == F::as_ptr(&b)) as i64);
        tr.push((F::w_as_ptr(&w) == F::as_ptr(&a)) as i64);
        tr.push(F::eq(&a, &b) as i64);
        tr.push((F::hash(&a) == F::hash(&b)) as i64);
        tr.push(shash(&F::debug(&a)));
        // raw round trips of both kinds of handle
        let p = F::into_raw(b);
        tr.push((p == F::as_ptr(&a)) as i64);
        unsafe { F::inc_strong(p) };
        tr.push(F::strong_count(&a) as i64);
        unsafe { F::dec_strong(p) };
        let b = unsafe { F::from_raw(p) };
        let wp = F::w_into_raw(w);
        tr.push((wp == p) as i64);
        let w = unsafe { F::w_from_raw(wp) };
        tr.push(F::w_strong_count(&w) as i64);
        tr.push(F::w_weak_count(&w) as i64);
        // get_mut / make_mut / try_unwrap
        tr.push(F::get_mut(&mut a).is_some() as i64);
        let before = F::as_ptr(&a);
        let _ = F::make_mut(&mut a); // shared: clones into a new allocation
        tr.push((F::as_ptr(&a) != before) as i64);
        tr.push(F::strong_count(&b) as i64);
        tr.push(F::get_mut(&mut a).is_some() as i64);
        tr.push(F::try_unwrap(a).is_ok() as i64);
        match F::try_unwrap(b) {
            Ok(_) => tr.push(1),
            Err(b) => {
                tr.push(0);
                drop(b);
            }
        }
        tr.push(F::upgrade(&w).is_none() as i64);
        tr.push(F::w_strong_count(&w) as i64);
        tr.push(F::w_weak_count(&w) as i64);
        drop(w);
        let d: F::Weak<T> = F::weak_new();
        tr.push(F::upgrade(&d).is_none() as i64);
        tr.push(F::w_strong_count(&d) as i64);
        let dp = F::w_into_raw(d);
        let d = unsafe { F::w_from_raw(dp) };
        tr.push(F::w_ptr_eq(&d, &F::weak_default()) as i64);
    }
}

fn layout_traces<F: Family>() -> Trace {
    let mut tr = Trace::new();
    layout_program::<F, Zst>(&mut tr);
    tr.push(-1);
    layout_program::<F, u8>(&mut tr);
    tr.push(-2);
    layout_program::<F, Wide>(&mut tr);
    tr.push(-3);
    layout_program::<F, String>(&mut tr);
    tr
}

fn arg_value(args: &[String], name: &str) -> Option<String> {
    args.iter().position(|a| a == name).and_then(|i| args.get(i + 1).cloned())
}

fn jstr(s: &str) -> String {
    format!("\"{}\"", s.replace('\\', "\\\\").replace('"', "\\\""))
}

fn main() {
    let args: Vec<String> = std::env::args().collect();
    match args.get(1).map(String::as_str) {
        Some("replay") => {
            if arg_value(&args, "--program").as_deref() == Some("layout-programs") {
                if layout_traces::<Std>() == layout_traces::<Cactus>() {
                    println!("std and cactusref agree on the fixed layout programs");
                    return;
                }
                println!("VIOLATED K7: std and cactusref disagree on the fixed layout programs");
                std::process::exit(1);
            }
            let prog: Vec<Cmd> = arg_value(&args, "--program").unwrap().split(',').map(parse_cmd).collect();
            match check_program(&prog, 0) {
                Ok(()) => {
                    println!("std and cactusref agree on every observation of this program");
                }
                Err(e) => {
                    println!("VIOLATED K7: {e}");
                    std::process::exit(1);
                }
            }
        }
        Some("explore") => std::process::exit(explore(&args)),
        _ => {
            eprintln!("usage: diffrc explore|replay ...");
            std::process::exit(2);
        }
    }
}

fn explore(args: &[String]) -> i32 {
    let b = Bounds {
        allocs: arg_value(args, "--allocs").map(|s| s.parse().unwrap()).unwrap_or(2),
        x: arg_value(args, "--x").map(|s| s.parse().unwrap()).unwrap_or(2),
        w: arg_value(args, "--w").map(|s| s.parse().unwrap()).unwrap_or(2),
        stored: arg_value(args, "--stored").map(|s| s.parse().unwrap()).unwrap_or(2),
    };
    assert!(b.allocs as usize <= MAXA);
    let out_path = arg_value(args, "--out").expect("--out");
    let threads: usize = arg_value(args, "--threads").map(|s| s.parse().unwrap()).unwrap_or(16);
    let announce = arg_value(args, "--announce");
    let max_secs: u64 = arg_value(args, "--max-secs").map(|s| s.parse().unwrap()).unwrap_or(u64::MAX);
    let max_states: usize = arg_value(args, "--max-states").map(|s| s.parse().unwrap()).unwrap_or(usize::MAX);
    let t0 = Instant::now();
    // the fixed layout programs are run by the driver in a process of their own (`replay
    // --program layout-programs`): a wrong offset crashes instead of disagreeing
    let layout_ok = true;
    let layout_obs = layout_traces::<Std>().len();
    let mut seen: HashSet<u128> = HashSet::new();
    seen.insert(Model::default().key());
    let mut frontier: Vec<Vec<Cmd>> = vec![vec![]];
    let mut states = 1usize;
    let mut transitions = 0usize;
    let mut depth = 0usize;
    let mut violations: Vec<(String, String)> = Vec::new();
    if !layout_ok {
        let a = layout_traces::<Std>();
        let b = layout_traces::<Cactus>();
        let pos = a.iter().zip(b.iter()).position(|(x, y)| x != y).unwrap_or(0);
        violations.push((
            "layout-programs".to_string(),
            format!("the fixed programs over zero-sized / byte / 64-byte-aligned / String payloads differ between std and cactusref at observation #{pos} (std {:?}, cactusref {:?})", a.get(pos), b.get(pos)),
        ));
    }
    let mut model_errors: Vec<String> = Vec::new();
    let mut samples: Vec<String> = Vec::new();
    let mut levels = Vec::new();
    let mut capped = false;
    let mut cmds_seen: HashSet<String> = HashSet::new();
    while !frontier.is_empty() {
        if t0.elapsed().as_secs() >= max_secs || states >= max_states {
            capped = true;
            break;
        }
        levels.push(frontier.len());
        let next_idx = std::sync::atomic::AtomicUsize::new(0);
        let results: Mutex<Vec<(usize, usize, Cmd, u128, Option<String>)>> = Mutex::new(Vec::new());
        std::thread::scope(|sc| {
            for _ in 0..threads.min(frontier.len()) {
                let frontier = &frontier;
                let next_idx = &next_idx;
                let results = &results;
                let announce = &announce;
                sc.spawn(move || {
                    let mut local = Vec::new();
                    loop {
                        let si = next_idx.fetch_add(1, std::sync::atomic::Ordering::Relaxed);
                        if si >= frontier.len() {
                            break;
                        }
                        let mut m = Model::default();
                        for &c in &frontier[si] {
                            m.apply(c);
                        }
                        let mut prog = frontier[si].clone();
                        for (oi, c) in m.enabled(&b).into_iter().enumerate() {
                            prog.push(c);
                            if let Some(path) = announce {
                                // careful mode (single thread): name the program before running it
                                let _ = std::fs::write(path, prog_to_string(&prog));
                            }
                            let verdict = check_program(&prog, prog.len() - 1).err();
                            let mut m2 = m.clone();
                            m2.apply(c);
                            local.push((si, oi, c, m2.key(), verdict));
                            prog.pop();
                        }
                    }
                    results.lock().unwrap().append(&mut local);
                });
            }
        });
        let mut res = results.into_inner().unwrap();
        res.sort_by_key(|r| (r.0, r.1));
        let mut next = Vec::new();
        for (si, _oi, c, key, verdict) in res {
            transitions += 1;
            cmds_seen.insert(c.to_string().split(':').next().unwrap().to_string());
            let mut prog = frontier[si].clone();
            prog.push(c);
            if let Some(e) = verdict {
                if e.starts_with("MODEL:") {
                    if model_errors.len() < 5 {
                        model_errors.push(format!("{e} [{}]", prog_to_string(&prog)));
                    }
                } else if violations.len() < 50 {
                    violations.push((prog_to_string(&prog), e));
                } else {
                    violations.push((String::new(), String::new()));
                }
                continue;
            }
            if seen.insert(key) {
                states += 1;
                if samples.len() < 5 && prog.len() >= 6 {
                    samples.push(prog_to_string(&prog));
                }
                next.push(prog);
            }
        }
        frontier = next;
        depth += 1;
        eprintln!("[diffrc] depth {depth}: states {states} programs {transitions} frontier {} disagreements {} ({:.1}s)", frontier.len(), violations.len(), t0.elapsed().as_secs_f64());
    }
    if samples.is_empty() {
        samples.push("new0,clone:0,drop:0".into());
    }
    let mut j = String::from("{\n");
    j.push_str(&format!(" \"bounds\": \"allocations<={} outside strong handles per allocation<={} Weak per allocation<={} stored handles<={}\",\n", b.allocs, b.x, b.w, b.stored));
    j.push_str(&format!(" \"states\": {states},\n \"programs\": {transitions},\n \"depth_completed\": {depth},\n \"exhaustive\": {},\n \"unexpanded_states_when_capped\": {},\n", !capped, frontier.len()));
    j.push_str(&format!(" \"level_sizes\": [{}],\n", levels.iter().map(|x| x.to_string()).collect::<Vec<_>>().join(",")));
    j.push_str(&format!(" \"api_commands_exercised\": {},\n \"layout_program_observations\": {layout_obs},\n", cmds_seen.len()));
    j.push_str(&format!(" \"wall_s\": {:.2},\n", t0.elapsed().as_secs_f64()));
    j.push_str(&format!(" \"samples\": [{}],\n", samples.iter().map(|s| jstr(s)).collect::<Vec<_>>().join(", ")));
    j.push_str(&format!(" \"model_errors\": [{}],\n", model_errors.iter().map(|s| jstr(s)).collect::<Vec<_>>().join(", ")));
    j.push_str(&format!(" \"disagreements\": {},\n", violations.len()));
    j.push_str(" \"witnesses\": [");
    let wit: Vec<String> = violations.iter().filter(|v| !v.0.is_empty()).take(5).map(|(p, e)| format!("{{\"program\": {}, \"detail\": {}}}", jstr(p), jstr(e))).collect();
    j.push_str(&wit.join(", "));
    j.push_str("]\n}\n");
    std::fs::write(out_path, j).unwrap();
    if !model_errors.is_empty() {
        return 2;
    }
    0
}
