//! C15: collection is iterative and linear.
//!
//!   scale case <shape> <n> <last>     one scenario, on a thread with a 128 KiB stack; prints one JSON line
//!   scale sweep --tier quick|thorough --out summary.json
//!
//! Shapes: ring, ringself (every 3rd member also adopts itself through a
//! clone), ringchord (every member also adopts the member 3 steps ahead),
//! clique (everybody adopts everybody, n <= 256), and for n <= 16 "allheld":
//! a ring whose members are all held outside and released in every rotation so
//! that each member is once the last one released.
//!
//! Every case is a child process: a stack overflow kills the child, not the sweep.

use std::cell::RefCell;
use std::process::Command;
use std::sync::atomic::{AtomicUsize, Ordering};
use std::time::Instant;

use cactusref::verif;
use cactusref::{Adopt, Rc};

static DROPPED: AtomicUsize = AtomicUsize::new(0);

struct SNode {
    next: RefCell<Vec<Rc<SNode>>>,
}

impl Drop for SNode {
    fn drop(&mut self) {
        DROPPED.fetch_add(1, Ordering::Relaxed);
    }
}

fn node() -> Rc<SNode> {
    Rc::new(SNode { next: RefCell::new(Vec::new()) })
}

fn own(owner: &Rc<SNode>, target: Rc<SNode>) {
    unsafe { Rc::adopt_unchecked(owner, &target) };
    owner.next.borrow_mut().push(target);
}

/// Builds the shape; returns the outside handles in the order they are to be
/// released (the last one orphans the group) and the number of adoptions.
fn build(shape: &str, n: usize, last: usize) -> (Vec<Rc<SNode>>, usize) {
    let mut adoptions = 0;
    match shape {
        "ring" | "ringself" | "ringchord" => {
            // built back to front so that no outside handle to a linked object
            // has to be dropped during construction
            let tail = node();
            let mut cur = Rc::clone(&tail);
            for i in (0..n - 1).rev() {
                let m = node();
                // the member 3 steps ahead, reached through stored handles by
                // reference (no temporary handle is created or dropped on the way)
                let chord: Option<Rc<SNode>> = if shape == "ringchord" {
                    let n1 = cur.next.borrow();
                    n1.first().and_then(|x| {
                        let n2 = x.next.borrow();
                        n2.first().map(Rc::clone)
                    })
                } else {
                    None
                };
                own(&m, cur);
                adoptions += 1;
                if let Some(t) = chord {
                    own(&m, t);
                    adoptions += 1;
                }
                if shape == "ringself" && i % 3 == 0 {
                    let me = Rc::clone(&m);
                    own(&m, me);
                    adoptions += 1;
                }
                cur = m;
            }
            // close the ring: tail owns the head
            own(&tail, Rc::clone(&cur));
            adoptions += 1;
            if n == 1 {
                // single member owning itself through a clone: cur and tail are the same object
            }
            (vec![tail, cur], adoptions)
        }
        "clique" => {
            let all: Vec<Rc<SNode>> = (0..n).map(|_| node()).collect();
            for a in &all {
                for b in &all {
                    own(a, Rc::clone(b));
                    adoptions += 1;
                }
            }
            (all, adoptions)
        }
        "allheld" => {
            let all: Vec<Rc<SNode>> = (0..n).map(|_| node()).collect();
            for i in 0..n {
                own(&all[i], Rc::clone(&all[(i + 1) % n]));
                adoptions += 1;
            }
            // release order: rotation that leaves `last` for the end
            let mut order: Vec<Rc<SNode>> = Vec::new();
            let mut all = all;
            let mut idx: Vec<usize> = (0..n).map(|i| (last + 1 + i) % n).collect();
            // take handles out by index
            let mut slots: Vec<Option<Rc<SNode>>> = all.drain(..).map(Some).collect();
            for i in idx.drain(..) {
                order.push(slots[i].take().unwrap());
            }
            (order, adoptions)
        }
        _ => panic!("unknown shape"),
    }
}

// ----------------------------------------------------------------------
// C16 / C05 at group sizes the history explorer cannot reach: members whose
// destructors touch the handles they store to peers of the same (large) group
// ----------------------------------------------------------------------

static UPGRADE_SOME: AtomicUsize = AtomicUsize::new(0);
static CLONER: AtomicUsize = AtomicUsize::new(usize::MAX);

struct BNode {
    id: usize,
    next: RefCell<Vec<Rc<BNode>>>,
    wnext: RefCell<Option<cactusref::Weak<BNode>>>,
}

impl Drop for BNode {
    fn drop(&mut self) {
        DROPPED.fetch_add(1, Ordering::Relaxed);
        // a Weak to the successor, which belongs to the group being collected: must be dead
        if let Some(w) = self.wnext.borrow().as_ref() {
            if w.upgrade().is_some() {
                UPGRADE_SOME.fetch_add(1, Ordering::Relaxed);
            }
        }
        if CLONER.load(Ordering::Relaxed) == self.id {
            // cloning a handle to a peer of the dying group must end the process here
            let c = self.next.borrow().first().map(Rc::clone);
            println!("AFTER-CLONE {}", c.is_some());
            std::mem::forget(c);
        }
        // explicitly drop the stored handles to peers: must have no effect at all
        let hs: Vec<Rc<BNode>> = std::mem::take(&mut *self.next.borrow_mut());
        for h in hs {
            drop(h);
        }
    }
}

fn run_big(n: usize, cloner: usize) -> String {
    DROPPED.store(0, Ordering::Relaxed);
    CLONER.store(cloner, Ordering::Relaxed);
    let mk = |id: usize| Rc::new(BNode { id, next: RefCell::new(Vec::new()), wnext: RefCell::new(None) });
    let tail = mk(n - 1);
    let mut cur = Rc::clone(&tail);
    for i in (0..n - 1).rev() {
        let m = mk(i);
        *m.wnext.borrow_mut() = Some(Rc::downgrade(&cur));
        unsafe { Rc::adopt_unchecked(&m, &cur) };
        m.next.borrow_mut().push(cur);
        cur = m;
    }
    *tail.wnext.borrow_mut() = Some(Rc::downgrade(&cur));
    let head2 = Rc::clone(&cur);
    unsafe { Rc::adopt_unchecked(&tail, &head2) };
    tail.next.borrow_mut().push(head2);
    let outside: Vec<cactusref::Weak<BNode>> = vec![Rc::downgrade(&tail), Rc::downgrade(&cur)];
    drop(tail);
    let before = DROPPED.load(Ordering::Relaxed);
    drop(cur);
    let destroyed = DROPPED.load(Ordering::Relaxed);
    let alive_after = outside.iter().filter(|w| w.upgrade().is_some()).count();
    format!(
        "{{\"shape\": \"big\", \"n\": {n}, \"cloner\": {}, \"destroyed_before_final_drop\": {before}, \"destroyed\": {destroyed}, \"upgrade_some_in_destructors\": {}, \"members_alive_after\": {alive_after}}}",
        if cloner == usize::MAX { -1 } else { cloner as i64 },
        UPGRADE_SOME.load(Ordering::Relaxed)
    )
}

fn run_case(shape: String, n: usize, last: usize) -> String {
    if shape == "bigdrop" {
        return run_big(n, usize::MAX);
    }
    if shape == "bigclone" {
        return run_big(n, last);
    }
    DROPPED.store(0, Ordering::Relaxed);
    let (mut handles, adoptions) = build(&shape, n, last);
    let final_handle = handles.pop().unwrap();
    let t_rel = Instant::now();
    for h in handles {
        drop(h);
    }
    let before_final = DROPPED.load(Ordering::Relaxed);
    let release_ns = t_rel.elapsed().as_nanos();
    verif::reset_counters();
    let t0 = Instant::now();
    drop(final_handle);
    let ns = t0.elapsed().as_nanos();
    let c = verif::trace_counters();
    let p = verif::path_counters();
    let lo = verif::link_op_counters();
    let dropped = DROPPED.load(Ordering::Relaxed);
    format!(
        "{{\"shape\": \"{shape}\", \"n\": {n}, \"last\": {last}, \"adoptions\": {adoptions}, \"destroyed_before_final_drop\": {before_final}, \"destroyed\": {dropped}, \"traces\": {}, \"pops\": {}, \"visits\": {}, \"scanned\": {}, \"group_teardowns\": {}, \"link_eq\": {}, \"link_hash\": {}, \"final_drop_ns\": {ns}, \"earlier_releases_ns\": {release_ns}}}",
        c[0], c[1], c[2], c[3], p[2], lo[0], lo[1]
    )
}

fn arg_value(args: &[String], name: &str) -> Option<String> {
    args.iter().position(|a| a == name).and_then(|i| args.get(i + 1).cloned())
}

fn main() {
    let args: Vec<String> = std::env::args().collect();
    match args.get(1).map(String::as_str) {
        Some("case") => {
            let shape = args[2].clone();
            let n: usize = args[3].parse().unwrap();
            let last: usize = args[4].parse().unwrap();
            let stack: usize = arg_value(&args, "--stack").map(|s| s.parse().unwrap()).unwrap_or(128 * 1024);
            let t = std::thread::Builder::new().stack_size(stack).spawn(move || run_case(shape, n, last)).unwrap();
            match t.join() {
                Ok(line) => println!("{line}"),
                Err(_) => {
                    println!("{{\"panic\": true}}");
                    std::process::exit(3);
                }
            }
        }
        Some("sweep") => std::process::exit(sweep(&args)),
        Some("bigsweep") => std::process::exit(big_sweep(&args)),
        _ => {
            eprintln!("usage: scale case <shape> <n> <last> | scale sweep --tier T --out F");
            std::process::exit(2);
        }
    }
}

/// one case in a child process, killed after `timeout_s` (exit code -999)
fn run_child(exe: &std::path::Path, shape: &str, n: usize, last: usize, timeout_s: u64) -> (i32, String) {
    use std::io::Read;
    use std::os::unix::process::ExitStatusExt;
    let mut child = Command::new(exe)
        .args(["case", shape, &n.to_string(), &last.to_string()])
        .stdout(std::process::Stdio::piped())
        .stderr(std::process::Stdio::null())
        .spawn()
        .unwrap();
    let t0 = Instant::now();
    loop {
        match child.try_wait().unwrap() {
            Some(st) => {
                let mut out = String::new();
                let _ = child.stdout.take().unwrap().read_to_string(&mut out);
                let code = st.code().unwrap_or_else(|| -(st.signal().unwrap_or(0)));
                return (code, out.trim().to_string());
            }
            None => {
                if t0.elapsed().as_secs() >= timeout_s {
                    let _ = child.kill();
                    let _ = child.wait();
                    return (-999, String::new());
                }
                std::thread::sleep(std::time::Duration::from_millis(5));
            }
        }
    }
}

fn big_sweep(args: &[String]) -> i32 {
    let out = arg_value(args, "--out").expect("--out");
    let exe = std::env::current_exe().unwrap();
    let sizes = [2usize, 3, 5, 16, 31, 32, 33, 34, 40, 63, 64, 65, 100, 257, 1000];
    let mut j = String::from("{\n \"cases\": [\n");
    let mut first = true;
    for &n in &sizes {
        let mut cases: Vec<(&str, usize)> = vec![("bigdrop", 0)];
        for k in [0, n / 2, n - 1] {
            if !cases.iter().any(|c| c.0 == "bigclone" && c.1 == k) {
                cases.push(("bigclone", k));
            }
        }
        for (shape, k) in cases {
            let (code, line) = run_child(&exe, shape, n, k, 60);
            let json_line = line.lines().rev().find(|l| l.starts_with('{')).unwrap_or("null").to_string();
            let after_clone = line.contains("AFTER-CLONE");
            if !first {
                j.push_str(",\n");
            }
            first = false;
            j.push_str(&format!("  {{\"shape\": \"{shape}\", \"n\": {n}, \"k\": {k}, \"exit\": {code}, \"printed_after_clone\": {after_clone}, \"result\": {json_line}}}"));
        }
    }
    j.push_str("\n ]\n}\n");
    std::fs::write(out, j).unwrap();
    0
}

fn sweep(args: &[String]) -> i32 {
    let tier = arg_value(args, "--tier").unwrap_or_else(|| "quick".into());
    let out = arg_value(args, "--out").expect("--out");
    let exe = std::env::current_exe().unwrap();
    let max_pow = if tier == "quick" { 14 } else { 18 };
    // a case normally takes well under a second; one that needs a minute is reported, not waited for
    let case_timeout: u64 = if tier == "quick" { 60 } else { 240 };
    let mut cases: Vec<(String, usize, usize)> = Vec::new();
    for shape in ["ring", "ringself", "ringchord"] {
        for n in 1..=64usize {
            cases.push((shape.to_string(), n, 0));
        }
        for p in 7..=max_pow {
            cases.push((shape.to_string(), 1usize << p, 0));
        }
    }
    for n in (1..=32usize).chain([48, 64, 96, 128, 192, 256]) {
        cases.push(("clique".to_string(), n, 0));
    }
    for n in 1..=16usize {
        for last in 0..n {
            cases.push(("allheld".to_string(), n, last));
        }
    }
    let total = cases.len();
    let next = AtomicUsize::new(0);
    let results: std::sync::Mutex<Vec<(usize, String, i32)>> = std::sync::Mutex::new(Vec::new());
    std::thread::scope(|sc| {
        for _ in 0..16 {
            sc.spawn(|| loop {
                let i = next.fetch_add(1, Ordering::Relaxed);
                if i >= total {
                    break;
                }
                let (shape, n, last) = &cases[i];
                let (code, line) = run_child(&exe, shape, *n, *last, case_timeout);
                results.lock().unwrap().push((i, line, code));
            });
        }
    });
    let mut res = results.into_inner().unwrap();
    res.sort_by_key(|r| r.0);
    let mut j = String::from("{\n \"cases\": [\n");
    for (k, (i, line, code)) in res.iter().enumerate() {
        let (shape, n, last) = &cases[*i];
        let body = if line.starts_with('{') { line.clone() } else { "null".to_string() };
        j.push_str(&format!("  {{\"shape\": \"{shape}\", \"n\": {n}, \"last\": {last}, \"exit\": {code}, \"result\": {body}}}"));
        j.push_str(if k + 1 < res.len() { ",\n" } else { "\n" });
    }
    j.push_str(" ]\n}\n");
    std::fs::write(out, j).unwrap();
    0
}
