//! Explicit-state explorer: coordinator, worker and replay modes.
//!
//!   mc explore --cfg <spec> --out <summary.json> [--workers N] [--cost] [--run-dir DIR]
//!   mc worker  --cfg <spec> [--cost]           (spawned by the coordinator)
//!   mc replay  --cfg <spec> --layout K --history <ops> [--probe] [--cost]
//!
//! The coordinator owns the frontier and the seen-set (breadth-first over
//! histories, level-synchronous, deterministic merge order). Workers execute
//! histories on the real crate and report canonical keys and oracle verdicts.
//! A worker that dies (sanitizer abort, signal) is attributed to the history it
//! had announced and is restarted.

use std::collections::{HashMap, HashSet};
use std::io::{BufRead, BufReader, BufWriter, Write};
use std::process::{Child, ChildStdin, ChildStdout, Command, Stdio};
use std::sync::atomic::{AtomicUsize, Ordering};
use std::sync::Mutex;
use std::time::Instant;

use cactus_mc::monitor::Viol;
use cactus_mc::ops::{history_to_string, parse_history, Config, Op};
use cactus_mc::world::{self, run_history, run_history_from};

fn arg_value(args: &[String], name: &str) -> Option<String> {
    args.iter().position(|a| a == name).and_then(|i| args.get(i + 1).cloned())
}

fn has_flag(args: &[String], name: &str) -> bool {
    args.iter().any(|a| a == name)
}

fn jstr(s: &str) -> String {
    let mut o = String::with_capacity(s.len() + 2);
    o.push('"');
    for c in s.chars() {
        match c {
            '"' => o.push_str("\\\""),
            '\\' => o.push_str("\\\\"),
            '\n' => o.push_str("\\n"),
            '\t' => o.push_str("\\t"),
            c if (c as u32) < 0x20 => o.push_str(&format!("\\u{:04x}", c as u32)),
            c => o.push(c),
        }
    }
    o.push('"');
    o
}

fn main() {
    let args: Vec<String> = std::env::args().collect();
    let mode = args.get(1).map(String::as_str).unwrap_or("");
    let code = match mode {
        "worker" => worker(&args),
        "explore" => explore(&args),
        "replay" => replay(&args),
        _ => {
            eprintln!("usage: mc explore|worker|replay ...");
            2
        }
    };
    std::process::exit(code);
}

// ----------------------------------------------------------------------
// replay
// ----------------------------------------------------------------------

fn replay(args: &[String]) -> i32 {
    let cfg = Config::parse(&arg_value(args, "--cfg").unwrap_or_default()).expect("bad --cfg");
    let layout: u16 = arg_value(args, "--layout").map(|s| s.parse().unwrap()).unwrap_or(0);
    let hist = parse_history(&arg_value(args, "--history").expect("--history")).expect("bad history");
    world::global_init();
    eprintln!("replay under layout {layout}: {}", history_to_string(&hist));
    let (_mon, out) = run_history(&cfg, layout, &hist, has_flag(args, "--probe"), true, has_flag(args, "--cost"));
    println!("key={:016x}{:016x} died_last={:#b} probe={:016x} steps={}", out.key[0], out.key[1], out.died_last, out.probe_digest, out.steps);
    if out.viol.is_empty() {
        println!("no oracle clause violated");
        0
    } else {
        for v in &out.viol {
            println!("VIOLATED {} [{}] at step {:?}: {}", v.clause, v.sig, out.viol_step, v.detail);
        }
        1
    }
}

// ----------------------------------------------------------------------
// worker
// ----------------------------------------------------------------------

fn worker(args: &[String]) -> i32 {
    let cfg = Config::parse(&arg_value(args, "--cfg").unwrap_or_default()).expect("bad --cfg");
    let cost = has_flag(args, "--cost");
    world::global_init();
    let stdin = std::io::stdin();
    let stdout = std::io::stdout();
    let mut out = BufWriter::with_capacity(1 << 16, stdout.lock());
    let mut orders: HashSet<(u64, u64)> = HashSet::new();
    for line in stdin.lock().lines() {
        let line = line.unwrap();
        let line = line.trim_end();
        if line == "Q" {
            for (c, o) in &orders {
                writeln!(out, "O {c:016x} {o:016x}").unwrap();
            }
            writeln!(out, "Z").unwrap();
            out.flush().unwrap();
            return 0;
        }
        let (skip, rest) = line.split_once(' ').unwrap_or((line, ""));
        let skip: usize = skip.parse().expect("bad skip");
        let (careful, hist_s) = rest.split_once(' ').unwrap_or((rest, ""));
        let careful = careful == "1";
        let hist = parse_history(hist_s).expect("bad history");
        // the state itself (first layout); its prefix was validated when it was discovered
        let (mon, base) = run_history_from(&cfg, cfg.layouts[0], &hist, hist.len(), false, false, cost);
        if !base.viol.is_empty() {
            writeln!(out, "M state-not-clean-on-reexecution {}", base.viol[0].sig).unwrap();
            writeln!(out, "E").unwrap();
            out.flush().unwrap();
            continue;
        }
        let ops = mon.enabled(&cfg);
        let stale = !mon.pre_holds_now();
        writeln!(out, "S {} {}", ops.len(), stale as u8).unwrap();
        let mut h2 = hist.clone();
        for (i, &op) in ops.iter().enumerate().skip(skip) {
            writeln!(out, "B {i} {op}").unwrap();
            if careful {
                // announce before executing, so that a crash can be attributed
                out.flush().unwrap();
            }
            h2.push(op);
            let mut viols: Vec<(u16, Option<usize>, Viol)> = Vec::new();
            let mut first: Option<([u64; 2], u8, u64)> = None;
            let mut paths = [0usize; 5];
            let mut all_dead = 0usize;
            let mut cost_checked = 0usize;
            let clone_own_armed = mon.armed.iter().any(|a| matches!(a, Some(cactus_mc::ops::Script::CloneOwn(_))));
            for &l in &cfg.layouts {
                let mut predicted_abort = false;
                if clone_own_armed {
                    // C16: dry run first; if the armed destructor would clone a handle to a
                    // dead object the real run must end the process - say so beforehand
                    world::set_benign_clone_own(true);
                    let (m_dry, _o) = run_history_from(&cfg, l, &h2, hist.len(), false, false, false);
                    world::set_benign_clone_own(false);
                    if m_dry.noted_dead_clone {
                        writeln!(out, "X {l}").unwrap();
                        out.flush().unwrap();
                        predicted_abort = true;
                    }
                }
                let (_m, mut o) = run_history_from(&cfg, l, &h2, hist.len(), cfg.probe, false, cost);
                if predicted_abort && !o.viol.iter().any(|v| v.clause == "K16") {
                    o.viol.push(Viol {
                        clause: "K16",
                        sig: "clone-of-dead-handle-did-not-end-the-process".into(),
                        detail: "a destructor cloned a strong handle to an object that is destroyed (or being destroyed by the running call); the process must end there, but the call came back".into(),
                    });
                }
                for v in &o.viol {
                    viols.push((l, o.viol_step, v.clone()));
                }
                for p in &o.orders[..o.norders] {
                    orders.insert(*p);
                }
                for k in 0..5 {
                    paths[k] += o.paths[k];
                }
                all_dead += o.all_dead_checked;
                cost_checked += o.cost_checked;
                if o.viol.iter().all(|v| world::soft(v.clause)) {
                    // the state after the operation is well defined: it must not depend on the layout
                    let sig = (o.key, o.died_last, o.probe_digest);
                    match first {
                        None => first = Some(sig),
                        Some(f) => {
                            if f != sig {
                                viols.push((
                                    l,
                                    None,
                                    Viol {
                                        clause: "K9",
                                        sig: format!("outcome-depends-on-layout;key={};died={};probe={}", (f.0 != sig.0) as u8, (f.1 != sig.1) as u8, (f.2 != sig.2) as u8),
                                        detail: format!(
                                            "layout {} and layout {l} disagree: destroyed sets {:#b} vs {:#b}, state keys equal={}, closing-probe digests equal={}",
                                            cfg.layouts[0], f.1, sig.1, f.0 == sig.0, f.2 == sig.2
                                        ),
                                    },
                                ));
                            }
                        }
                    }
                }
            }
            h2.pop();
            let (key, died, probe) = first.unwrap_or(([0, 0], 0, 0));
            let hard = first.is_none() || viols.iter().any(|(_, _, v)| !world::soft(v.clause));
            writeln!(
                out,
                "R {i} {:016x}{:016x} {died} {probe:016x} {} {} {} {} {} {} {} {} {}",
                key[0], key[1], viols.len(), paths[0], paths[1], paths[2], paths[3], paths[4], all_dead, cost_checked, hard as u8
            )
            .unwrap();
            for (l, step, v) in &viols {
                writeln!(out, "V {}\t{}\t{}\t{}\t{}", v.clause, v.sig, l, step.map(|s| s as i64).unwrap_or(-1), v.detail.replace(['\n', '\t'], " ")).unwrap();
            }
        }
        writeln!(out, "E").unwrap();
        out.flush().unwrap();
    }
    0
}

// ----------------------------------------------------------------------
// coordinator
// ----------------------------------------------------------------------

struct Trans {
    state: usize,
    op_idx: usize,
    op: Op,
    key: u128,
    died: u8,
    probe: u64,
    viols: Vec<VRec>,
    stats: [usize; 7],
    /// a violation after which the path must not be extended (or a crash)
    hard: bool,
}

#[derive(Clone)]
struct VRec {
    clause: String,
    sig: String,
    layout: i64,
    step: i64,
    detail: String,
}

struct WorkerProc {
    child: Child,
    stdin: BufWriter<ChildStdin>,
    stdout: BufReader<ChildStdout>,
    err_path: String,
}

fn spawn_worker(exe: &str, cfg_spec: &str, cost: bool, run_dir: &str, idx: usize, gen: usize) -> WorkerProc {
    let err_path = format!("{run_dir}/worker-{idx}-{gen}.err");
    let err = std::fs::File::create(&err_path).expect("cannot create worker stderr file");
    let mut cmd = Command::new(exe);
    cmd.arg("worker").arg("--cfg").arg(cfg_spec);
    if cost {
        cmd.arg("--cost");
    }
    cmd.env(
        "ASAN_OPTIONS",
        "detect_leaks=0:abort_on_error=1:symbolize=0:allocator_may_return_null=1:quarantine_size_mb=8:malloc_context_size=0:handle_segv=1:print_summary=1:detect_stack_use_after_return=0",
    );
    cmd.env("RUST_BACKTRACE", "0");
    cmd.stdin(Stdio::piped()).stdout(Stdio::piped()).stderr(Stdio::from(err));
    let mut child = cmd.spawn().expect("cannot spawn worker");
    let stdin = BufWriter::new(child.stdin.take().unwrap());
    let stdout = BufReader::new(child.stdout.take().unwrap());
    WorkerProc { child, stdin, stdout, err_path }
}

/// Persistent llvm-symbolizer (workers run with symbolize=0: a symbolized
/// sanitizer report costs >100 ms, an unsymbolized one a few ms).
struct Symbolizer {
    child: Option<(Child, ChildStdin, BufReader<ChildStdout>)>,
    cache: HashMap<String, Vec<String>>,
}

impl Symbolizer {
    fn new() -> Symbolizer {
        Symbolizer { child: None, cache: HashMap::new() }
    }

    /// function names at `module+offset`, innermost inlined frame first
    fn lookup(&mut self, module: &str, offset: &str) -> Vec<String> {
        let key = format!("{module} {offset}");
        if let Some(v) = self.cache.get(&key) {
            return v.clone();
        }
        if self.child.is_none() {
            let c = Command::new("llvm-symbolizer").stdin(Stdio::piped()).stdout(Stdio::piped()).stderr(Stdio::null()).spawn();
            if let Ok(mut c) = c {
                let i = c.stdin.take().unwrap();
                let o = BufReader::new(c.stdout.take().unwrap());
                self.child = Some((c, i, o));
            }
        }
        let mut names = Vec::new();
        if let Some((_, i, o)) = self.child.as_mut() {
            if writeln!(i, "{key}").and_then(|_| i.flush()).is_ok() {
                let mut line = String::new();
                let mut idx = 0;
                loop {
                    line.clear();
                    match o.read_line(&mut line) {
                        Ok(0) | Err(_) => break,
                        Ok(_) => {}
                    }
                    let l = line.trim_end();
                    if l.is_empty() {
                        break;
                    }
                    if idx % 2 == 0 {
                        names.push(l.to_string());
                    }
                    idx += 1;
                }
            }
        }
        self.cache.insert(key, names.clone());
        names
    }
}

impl Drop for Symbolizer {
    fn drop(&mut self) {
        if let Some((mut c, i, _o)) = self.child.take() {
            drop(i);
            let _ = c.kill();
            let _ = c.wait();
        }
    }
}

/// first lines of a sanitizer report / crash message, reduced to something stable
fn crash_signature(err_path: &str, status: &str, sym: &Mutex<Symbolizer>) -> (String, String) {
    let text = std::fs::read_to_string(err_path).unwrap_or_default();
    let mut kind = String::new();
    let mut access = String::new();
    let mut funcs: Vec<String> = Vec::new();
    let mut nframes = 0;
    for line in text.lines() {
        if let Some(pos) = line.find("ERROR: AddressSanitizer: ") {
            if kind.is_empty() {
                let rest = &line[pos + "ERROR: AddressSanitizer: ".len()..];
                kind = rest.split_whitespace().next().unwrap_or("").to_string();
            }
        } else if (line.starts_with("READ of size") || line.starts_with("WRITE of size")) && access.is_empty() {
            access = line.split_whitespace().next().unwrap_or("").to_string();
        } else if line.trim_start().starts_with('#') && nframes < 24 {
            nframes += 1;
            // "#3 0x55..  (/path/to/mc+0x1f0cc7) (BuildId: ..)"  or an already symbolized "#3 0x.. in name file"
            if let Some(p) = line.find(" in ") {
                let rest = &line[p + 4..];
                funcs.push(rest.split(" /").next().unwrap_or(rest).to_string());
            } else if let (Some(a), Some(b)) = (line.find('('), line.find(')')) {
                let inner = &line[a + 1..b];
                if let Some((module, off)) = inner.rsplit_once('+') {
                    let mut s = sym.lock().unwrap();
                    funcs.extend(s.lookup(module, off));
                }
            }
        } else if nframes > 0 && line.trim().is_empty() {
            // end of the first stack trace
            if nframes >= 1 && !funcs.is_empty() {
                break;
            }
        }
    }
    fn strip_generics(s: &str) -> String {
        let mut out = String::new();
        let mut depth = 0;
        for c in s.chars() {
            match c {
                '<' => depth += 1,
                '>' => depth -= 1,
                c if depth == 0 => out.push(c),
                _ => {}
            }
        }
        out.replace("::::", "::")
    }
    /// `<A<..> as B>::m` -> `A::m`; `a::b::<T>::{closure#2}` -> `a::b::{closure#2}`
    fn clean(sym: &str) -> String {
        if sym.starts_with('<') {
            if let Some(p) = sym.find(" as ") {
                let ty = strip_generics(&sym[1..p]);
                // method after the matching ">::"
                let mut depth = 0;
                let mut end = None;
                for (i, c) in sym.char_indices() {
                    match c {
                        '<' => depth += 1,
                        '>' => {
                            depth -= 1;
                            if depth == 0 {
                                end = Some(i);
                                break;
                            }
                        }
                        _ => {}
                    }
                }
                let method = end.map(|e| strip_generics(sym[e + 1..].trim_start_matches("::"))).unwrap_or_default();
                return format!("{ty}::{method}");
            }
            // `<A<..>>::m`
            let mut depth = 0;
            for (i, c) in sym.char_indices() {
                match c {
                    '<' => depth += 1,
                    '>' => {
                        depth -= 1;
                        if depth == 0 {
                            let ty = strip_generics(&sym[1..i]);
                            let method = strip_generics(sym[i + 1..].trim_start_matches("::"));
                            return format!("{ty}::{method}");
                        }
                    }
                    _ => {}
                }
            }
        }
        strip_generics(sym)
    }
    // first function that belongs to the crate under test, else to the harness
    let mut where_ = String::from("unknown");
    for f in &funcs {
        if f.starts_with("cactusref::") || f.starts_with("<cactusref::") {
            where_ = clean(f);
            break;
        }
        if f.starts_with("cactus_mc::") || f.starts_with("<cactus_mc::") || f.starts_with("mc::") {
            // a Slot/Node destructor is user code called by the library: keep looking
            if f.contains("payload::") {
                continue;
            }
            where_ = format!("harness:{}", clean(f));
            break;
        }
    }
    let sig = if kind.is_empty() {
        format!("crash:{status}")
    } else {
        format!("asan:{kind}:{access}:{where_}")
    };
    let mut excerpt: String = text.lines().filter(|l| !l.trim().is_empty()).take(3).map(|l| l.trim().chars().take(160).collect::<String>()).collect::<Vec<_>>().join(" | ");
    excerpt.push_str(" | stack: ");
    excerpt.push_str(&funcs.iter().take(8).map(|f| clean(f)).collect::<Vec<_>>().join(" < "));
    (sig, excerpt)
}

/// which extended alphabet a history uses (decides the property a violation is attributed to)
fn context_of(hist: &[Op]) -> String {
    use cactus_mc::ops::Script;
    let mut ctx = "base";
    for op in hist {
        match op {
            Op::Arm(_, Script::Panic) => return "script:panic".to_string(),
            Op::Arm(_, Script::UpgradeOwn(_)) | Op::Arm(_, Script::UpgradeRoot(_)) => {
                if ctx == "base" {
                    ctx = "script:upgrade";
                }
            }
            Op::Arm(_, Script::CloneOwn(_)) | Op::Arm(_, Script::DropOwn(_)) => ctx = "script:own-handle",
            Op::Arm(..) => ctx = "script:api",
            Op::TryUnwrap(_) | Op::DropUnwrapped(_) | Op::MakeMut(_) | Op::GetMut(_) | Op::RawRoundTrip(_) | Op::IncStrong(_) | Op::DecStrong(_) => {
                if ctx == "base" {
                    ctx = "consume";
                }
            }
            _ if false => {}
            Op::Take(_, _, cactus_mc::ops::TakeMode::Elide) => {
                if ctx == "base" || ctx == "consume" {
                    ctx = "elide";
                }
            }
            _ => {}
        }
    }
    ctx.to_string()
}

fn explore(args: &[String]) -> i32 {
    let cfg_spec = arg_value(args, "--cfg").unwrap_or_default();
    let cfg = Config::parse(&cfg_spec).expect("bad --cfg");
    let cfg_spec = cfg.to_spec();
    let out_path = arg_value(args, "--out").expect("--out");
    let nworkers: usize = arg_value(args, "--workers").map(|s| s.parse().unwrap()).unwrap_or(16);
    let cost = has_flag(args, "--cost");
    let max_states: usize = arg_value(args, "--max-states").map(|s| s.parse().unwrap()).unwrap_or(usize::MAX);
    let max_secs: u64 = arg_value(args, "--max-secs").map(|s| s.parse().unwrap()).unwrap_or(u64::MAX);
    let max_crashes: usize = arg_value(args, "--max-crashes").map(|s| s.parse().unwrap()).unwrap_or(usize::MAX);
    let run_dir = arg_value(args, "--run-dir").unwrap_or_else(|| format!("/verif/tmp/run-{}", std::process::id()));
    std::fs::create_dir_all(&run_dir).expect("cannot create run dir");
    let exe = std::env::current_exe().unwrap().to_string_lossy().to_string();
    let t0 = Instant::now();

    let mut seen: HashMap<u128, (u64, u32)> = HashMap::new(); // key -> (probe digest, index of first history in `firsts`)
    let mut frontier: Vec<Vec<Op>> = vec![vec![]];
    let mut depth: u32 = 0;
    let mut states: usize = 1; // the initial state
    let mut transitions: usize = 0;
    let mut executions: usize = 0;
    let mut crashes: usize = 0;
    let mut capped = false;
    let mut cap_reason = String::new();
    let mut level_sizes: Vec<usize> = Vec::new();
    let mut stats_total = [0usize; 7];
    let mut distinct_died: HashSet<u8> = HashSet::new();
    let mut orders: HashSet<(u64, u64)> = HashSet::new();
    // violations grouped by (clause, sig)
    // violations grouped by (clause, signature, kind of history) - the kind decides
    // which property a violation belongs to, so it must not be mixed inside a group
    let mut groups: HashMap<(String, String, String), (usize, Vec<(Vec<Op>, VRec)>)> = HashMap::new();
    let mut machinery: Vec<String> = Vec::new();
    let mut samples: Vec<String> = Vec::new();
    let mut first_hist: Vec<Vec<Op>> = Vec::new();

    let workers: Vec<Mutex<Option<WorkerProc>>> = (0..nworkers).map(|_| Mutex::new(None)).collect();
    let gens = AtomicUsize::new(0);
    let expected_aborts_owner = AtomicUsize::new(0);
    let mut dump = std::env::var("MC_DUMP_VIOLS").ok().map(|p| BufWriter::new(std::fs::File::create(p).unwrap()));
    let symbolizer_owner = Mutex::new(Symbolizer::new());

    while !frontier.is_empty() {
        if cfg.max_depth != 0 && depth >= cfg.max_depth {
            capped = true;
            cap_reason = format!("depth cap {} reached with {} unexpanded states", cfg.max_depth, frontier.len());
            break;
        }
        if crashes >= max_crashes {
            capped = true;
            cap_reason = format!("stopped after {crashes} worker crashes (each one is reported as a violation) at depth {depth} with {} unexpanded states", frontier.len());
            break;
        }
        if states >= max_states || t0.elapsed().as_secs() >= max_secs {
            capped = true;
            cap_reason = format!("state/time cap reached at depth {depth} with {} unexpanded states", frontier.len());
            break;
        }
        level_sizes.push(frontier.len());
        let next_idx = AtomicUsize::new(0);
        let results: Mutex<Vec<Trans>> = Mutex::new(Vec::new());
        let mach: Mutex<Vec<String>> = Mutex::new(Vec::new());
        let crash_count = AtomicUsize::new(0);
        let skipped_owner = AtomicUsize::new(0);
        let crashes_before = crashes;
        std::thread::scope(|scope| {
            for wi in 0..nworkers.min(frontier.len().max(1)) {
                let frontier = &frontier;
                let next_idx = &next_idx;
                let results = &results;
                let mach = &mach;
                let workers = &workers;
                let gens = &gens;
                let exe = &exe;
                let cfg_spec = &cfg_spec;
                let run_dir = &run_dir;
                let crash_count = &crash_count;
                let skipped = &skipped_owner;
                let expected_aborts = &expected_aborts_owner;
                let symbolizer = &symbolizer_owner;
                scope.spawn(move || {
                    let mut guard = workers[wi].lock().unwrap();
                    let mut local: Vec<Trans> = Vec::new();
                    loop {
                        let si = next_idx.fetch_add(1, Ordering::Relaxed);
                        if si >= frontier.len() {
                            break;
                        }
                        if crashes_before + crash_count.load(Ordering::Relaxed) >= max_crashes || t0.elapsed().as_secs() >= max_secs {
                            // budget exhausted: leave the rest of this level unexpanded
                            skipped.fetch_add(1, Ordering::Relaxed);
                            continue;
                        }
                        let hist_s = history_to_string(&frontier[si]);
                        let mut skip = 0usize;
                        let mut careful = false;
                        let mark = local.len();
                        'state: loop {
                            if guard.is_none() {
                                let g = gens.fetch_add(1, Ordering::Relaxed);
                                *guard = Some(spawn_worker(exe, cfg_spec, cost, run_dir, wi, g));
                            }
                            let wp = guard.as_mut().unwrap();
                            let sent = writeln!(wp.stdin, "{skip} {} {hist_s}", careful as u8).and_then(|_| wp.stdin.flush());
                            let mut announced: Option<(usize, Op)> = None;
                            let mut stale_state = false;
                            let mut expect_abort = false;
                            let mut pending: Option<Trans> = None;
                            let mut line = String::new();
                            let mut died = sent.is_err();
                            while !died {
                                line.clear();
                                match wp.stdout.read_line(&mut line) {
                                    Ok(0) | Err(_) => {
                                        died = true;
                                        break;
                                    }
                                    Ok(_) => {}
                                }
                                let l = line.trim_end_matches('\n');
                                let tag = l.as_bytes().first().copied().unwrap_or(b' ');
                                match tag {
                                    b'S' => {
                                        stale_state = l.ends_with(" 1");
                                    }
                                    b'X' => {
                                        expect_abort = true;
                                    }
                                    b'B' => {
                                        expect_abort = false;
                                        if let Some(t) = pending.take() {
                                            local.push(t);
                                        }
                                        let mut it = l.splitn(3, ' ');
                                        it.next();
                                        let i: usize = it.next().unwrap().parse().unwrap();
                                        let op = cactus_mc::ops::parse_op(it.next().unwrap()).unwrap();
                                        announced = Some((i, op));
                                    }
                                    b'R' => {
                                        let f: Vec<&str> = l.split(' ').collect();
                                        let (i, op) = announced.take().expect("R without B");
                                        let key = u128::from_str_radix(f[2], 16).unwrap();
                                        let mut stats = [0usize; 7];
                                        for k in 0..7 {
                                            stats[k] = f[6 + k].parse().unwrap();
                                        }
                                        pending = Some(Trans {
                                            state: si,
                                            op_idx: i,
                                            op,
                                            key,
                                            died: f[3].parse().unwrap(),
                                            probe: u64::from_str_radix(f[4], 16).unwrap(),
                                            viols: Vec::new(),
                                            stats,
                                            hard: f.get(13).map(|x| *x == "1").unwrap_or(false),
                                        });
                                    }
                                    b'V' => {
                                        let f: Vec<&str> = l[2..].splitn(5, '\t').collect();
                                        pending.as_mut().expect("V without R").viols.push(VRec {
                                            clause: f[0].to_string(),
                                            sig: f[1].to_string(),
                                            layout: f[2].parse().unwrap_or(-1),
                                            step: f[3].parse().unwrap_or(-1),
                                            detail: f.get(4).unwrap_or(&"").to_string(),
                                        });
                                    }
                                    b'M' => {
                                        mach.lock().unwrap().push(format!("{} (history {hist_s})", &l[2..]));
                                    }
                                    b'E' => {
                                        if let Some(t) = pending.take() {
                                            local.push(t);
                                        }
                                        break 'state;
                                    }
                                    _ => {
                                        mach.lock().unwrap().push(format!("unparsable worker line {l:?}"));
                                    }
                                }
                            }
                            // the worker died
                            if let Some(t) = pending.take() {
                                local.push(t);
                            }
                            let mut wp = guard.take().unwrap();
                            let status = match wp.child.wait() {
                                Ok(s) => {
                                    use std::os::unix::process::ExitStatusExt;
                                    if let Some(sig) = s.signal() {
                                        format!("signal-{sig}")
                                    } else {
                                        format!("exit-{}", s.code().unwrap_or(-1))
                                    }
                                }
                                Err(_) => "unknown".to_string(),
                            };
                            let (mut sig, excerpt) = crash_signature(&wp.err_path, &status, symbolizer);
                            if stale_state {
                                sig.push_str(";stale=1");
                            }
                            let _ = std::fs::remove_file(&wp.err_path);
                            if !careful {
                                // output was buffered: what the worker was doing is unknown.
                                // Redo this state from scratch, announcing every transition.
                                local.truncate(mark);
                                careful = true;
                                skip = 0;
                                continue 'state;
                            }
                            if expect_abort && (sig.starts_with("crash:signal-4") || sig.starts_with("crash:signal-6")) {
                                // C16: the process ended exactly where cloning a handle to a
                                // destroyed object was announced - the required behaviour
                                if let Some((i, _op)) = announced {
                                    expected_aborts.fetch_add(1, Ordering::Relaxed);
                                    skip = i + 1;
                                    continue 'state;
                                }
                            }
                            crash_count.fetch_add(1, Ordering::Relaxed);
                            match announced {
                                Some((i, op)) => {
                                    local.push(Trans {
                                        state: si,
                                        op_idx: i,
                                        op,
                                        key: 0,
                                        died: 0,
                                        probe: 0,
                                        viols: vec![VRec { clause: "CRASH".to_string(), sig, layout: -1, step: -1, detail: excerpt }],
                                        stats: [0; 7],
                                        hard: true,
                                    });
                                    skip = i + 1;
                                }
                                None => {
                                    mach.lock().unwrap().push(format!("worker died ({status}) outside a transition, history {hist_s}: {excerpt}"));
                                    break 'state;
                                }
                            }
                        }
                    }
                    results.lock().unwrap().append(&mut local);
                });
            }
        });
        machinery.append(&mut mach.into_inner().unwrap());
        crashes += crash_count.load(Ordering::Relaxed);
        let skipped_states = skipped_owner.load(Ordering::Relaxed);
        if skipped_states > 0 {
            capped = true;
            cap_reason = format!("crash or time budget exhausted inside BFS level {depth}: {skipped_states} states of that level were not expanded ({crashes} worker crashes, {:.0}s)", t0.elapsed().as_secs_f64());
        }
        let mut res = results.into_inner().unwrap();
        res.sort_by_key(|t| (t.state, t.op_idx));
        let mut next: Vec<Vec<Op>> = Vec::new();
        for t in res {
            transitions += 1;
            executions += cfg.layouts.len();
            for k in 0..7 {
                stats_total[k] += t.stats[k];
            }
            let mut hist = frontier[t.state].clone();
            hist.push(t.op);
            if !t.viols.is_empty() {
                if let Some(f) = dump.as_mut() {
                    for v in &t.viols {
                        writeln!(f, "{}\t{}\t{}\t{}", v.clause, v.sig, v.layout, history_to_string(&hist)).unwrap();
                    }
                }
                for v in t.viols {
                    let e = groups.entry((v.clause.clone(), v.sig.clone(), context_of(&hist))).or_insert((0, Vec::new()));
                    e.0 += 1;
                    if e.1.len() < 3 {
                        e.1.push((hist.clone(), v));
                    }
                }
                if t.hard {
                    continue;
                }
            }
            distinct_died.insert(t.died);
            match seen.get(&t.key) {
                Some(&(probe, first)) => {
                    if cfg.probe && probe != t.probe {
                        let v = VRec {
                            clause: "K8".to_string(),
                            sig: "closing-probe-depends-on-history".to_string(),
                            layout: cfg.layouts[0] as i64,
                            step: -1,
                            detail: format!(
                                "two histories reach the same recorded adoptions and handle counts but tearing everything down destroys different things; other history: {}",
                                history_to_string(&first_hist[first as usize])
                            ),
                        };
                        let e = groups.entry((v.clause.clone(), v.sig.clone(), context_of(&hist))).or_insert((0, Vec::new()));
                        e.0 += 1;
                        if e.1.len() < 3 {
                            e.1.push((hist.clone(), v));
                        }
                    }
                }
                None => {
                    let idx = if cfg.probe {
                        first_hist.push(hist.clone());
                        (first_hist.len() - 1) as u32
                    } else {
                        0
                    };
                    seen.insert(t.key, (t.probe, idx));
                    states += 1;
                    if samples.len() < 6 && (hist.len() >= 5 && t.died != 0) {
                        samples.push(history_to_string(&hist));
                    }
                    next.push(hist);
                }
            }
        }
        frontier = next;
        depth += 1;
        if skipped_states > 0 {
            frontier.clear();
        }
        eprintln!(
            "[mc] depth {depth}: states {states} transitions {transitions} frontier {} violations {} crashes {crashes} ({:.1}s)",
            frontier.len(),
            groups.values().map(|g| g.0).sum::<usize>(),
            t0.elapsed().as_secs_f64()
        );
    }
    // collect order statistics and stop the workers
    for wmx in &workers {
        let mut g = wmx.lock().unwrap();
        if let Some(mut wp) = g.take() {
            let _ = writeln!(wp.stdin, "Q").and_then(|_| wp.stdin.flush());
            let mut line = String::new();
            loop {
                line.clear();
                match wp.stdout.read_line(&mut line) {
                    Ok(0) | Err(_) => break,
                    Ok(_) => {}
                }
                let l = line.trim_end();
                if l == "Z" {
                    break;
                }
                if let Some(rest) = l.strip_prefix("O ") {
                    let mut it = rest.split(' ');
                    let c = u64::from_str_radix(it.next().unwrap(), 16).unwrap();
                    let o = u64::from_str_radix(it.next().unwrap(), 16).unwrap();
                    orders.insert((c, o));
                }
            }
            let _ = wp.child.wait();
            let _ = std::fs::remove_file(&wp.err_path);
        }
    }
    let _ = std::fs::remove_dir(&run_dir);
    if samples.is_empty() {
        samples.push("new".to_string());
    }
    // table-order coverage: how many table contents were seen in >= 2 iteration orders
    let mut by_content: HashMap<u64, HashSet<u64>> = HashMap::new();
    for (c, o) in &orders {
        by_content.entry(*c).or_default().insert(*o);
    }
    let contents = by_content.len();
    let contents_multi = by_content.values().filter(|s| s.len() >= 2).count();

    // summary
    let mut j = String::new();
    j.push_str("{\n");
    j.push_str(&format!(" \"config\": {},\n", jstr(&cfg_spec)));
    j.push_str(&format!(" \"layouts\": {},\n", cfg.layouts.len()));
    j.push_str(&format!(" \"states\": {states},\n \"transitions\": {transitions},\n \"executions\": {executions},\n"));
    j.push_str(&format!(" \"depth_completed\": {depth},\n \"exhaustive\": {},\n \"cap_reason\": {},\n", !capped, jstr(&cap_reason)));
    j.push_str(&format!(" \"level_sizes\": [{}],\n", level_sizes.iter().map(|x| x.to_string()).collect::<Vec<_>>().join(",")));
    j.push_str(&format!(" \"worker_crashes\": {crashes},\n \"expected_aborts\": {},\n", expected_aborts_owner.load(Ordering::Relaxed)));
    j.push_str(&format!(" \"distinct_destroyed_sets\": {},\n", distinct_died.len()));
    j.push_str(&format!(
        " \"teardown_paths\": {{\"plain\": {}, \"zero_count_with_adoptions\": {}, \"group\": {}, \"dead_handle\": {}, \"traced_but_reachable\": {}}},\n",
        stats_total[0], stats_total[1], stats_total[2], stats_total[3], stats_total[4]
    ));
    j.push_str(&format!(" \"all_dead_states_checked\": {},\n \"cost_checks\": {},\n", stats_total[5], stats_total[6]));
    j.push_str(&format!(" \"table_contents_seen\": {contents},\n \"table_contents_seen_in_2plus_orders\": {contents_multi},\n \"distinct_table_orders\": {},\n", orders.len()));
    j.push_str(&format!(" \"wall_s\": {:.3},\n", t0.elapsed().as_secs_f64()));
    j.push_str(&format!(" \"samples\": [{}],\n", samples.iter().map(|s| jstr(s)).collect::<Vec<_>>().join(", ")));
    j.push_str(&format!(" \"machinery_errors\": [{}],\n", machinery.iter().take(20).map(|s| jstr(s)).collect::<Vec<_>>().join(", ")));
    j.push_str(" \"violations\": [\n");
    let mut keys: Vec<&(String, String, String)> = groups.keys().collect();
    keys.sort();
    for (gi, k) in keys.iter().enumerate() {
        let (count, wit) = &groups[*k];
        j.push_str(&format!("  {{\"clause\": {}, \"sig\": {}, \"context\": {}, \"count\": {count}, \"witnesses\": [", jstr(&k.0), jstr(&k.1), jstr(&k.2)));
        for (wi, (h, v)) in wit.iter().enumerate() {
            if wi > 0 {
                j.push_str(", ");
            }
            j.push_str(&format!(
                "{{\"history\": {}, \"layout\": {}, \"step\": {}, \"detail\": {}}}",
                jstr(&history_to_string(h)),
                v.layout,
                v.step,
                jstr(&v.detail)
            ));
        }
        j.push_str("]}");
        j.push_str(if gi + 1 < keys.len() { ",\n" } else { "\n" });
    }
    j.push_str(" ]\n}\n");
    std::fs::write(&out_path, j).expect("cannot write summary");
    if !machinery.is_empty() {
        eprintln!("[mc] machinery errors: {}", machinery.len());
        return 2;
    }
    0
}
