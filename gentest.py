"""Turns a stored history into a plain Rust #[test] that performs the same calls on
cactusref through its public API only (no explorer, no hooks, no harness allocator).
Histories that arm destructor scripts are not translated (use ./check --replay)."""

PRELUDE = '''// Generated from {src}
// Property {prop}, oracle clause {clause} [{sig}]
// Observed by the explorer: {observed}
// Drop this file into /repo/tests/ and run: cargo test --test {name}
// (memory errors show under: RUSTFLAGS=-Zsanitizer=address cargo test --target x86_64-unknown-linux-gnu --test {name},
//  or cargo +nightly miri test --test {name})
#![allow(unused_variables, unused_mut, clippy::all)]
use cactusref::{{Adopt, Rc, Weak}};
use std::cell::RefCell;

thread_local! {{ static DROPPED: RefCell<Vec<usize>> = RefCell::new(Vec::new()); }}

#[derive(Clone)]
struct Node {{
    id: usize,
    slots: RefCell<Vec<(usize, Rc<Node>)>>,
    wslots: RefCell<Vec<(usize, Weak<Node>)>>,
}}
impl Drop for Node {{
    fn drop(&mut self) {{
        DROPPED.with(|d| d.borrow_mut().push(self.id));
    }}
}}
fn node(id: usize) -> Node {{
    Node {{ id, slots: RefCell::new(Vec::new()), wslots: RefCell::new(Vec::new()) }}
}}
fn dropped() -> Vec<usize> {{
    DROPPED.with(|d| d.borrow().clone())
}}
fn take(owner: &Rc<Node>, target: usize) -> Rc<Node> {{
    let mut s = owner.slots.borrow_mut();
    let i = s.iter().rposition(|(t, _)| *t == target).unwrap();
    s.remove(i).1
}}

#[test]
fn replay() {{
    // ext[o]: strong handles to object o held by the program; extw[o]: Weak handles
    let mut ext: Vec<Vec<Rc<Node>>> = (0..8).map(|_| Vec::new()).collect();
    let mut extw: Vec<Vec<Weak<Node>>> = (0..8).map(|_| Vec::new()).collect();
    let mut unwrapped: Vec<Option<Node>> = (0..8).map(|_| None).collect();
    let mut next = 0usize;
'''


def gen_test(doc, name):
    hist = doc["history"].split(",") if doc["history"] else []
    if any(op.startswith("arm:") for op in hist):
        return None
    out = [PRELUDE.format(src=doc.get("how_to_replay", ""), prop=doc["property"], clause=doc["clause"], sig=doc["signature"],
                          observed=doc["observed"].replace("\n", " ")[:400], name=name)]
    w = out.append
    for i, op in enumerate(hist):
        p = op.split(":")
        k = p[0]
        a = p[1] if len(p) > 1 else None
        b = p[2] if len(p) > 2 else None
        m = p[3] if len(p) > 3 else None
        w(f"    // step {i}: {op}")
        if k == "new":
            w("    ext[next].push(Rc::new(node(next))); next += 1;")
        elif k == "clone":
            w(f"    {{ let h = if let Some(h) = ext[{a}].first() {{ Rc::clone(h) }} else {{ find(&ext, {a}).expect(\"reachable\") }}; ext[{a}].push(h); }}")
        elif k in ("drop",):
            w(f"    {{ let h = ext[{a}].pop().unwrap(); drop(h); }}")
        elif k == "store":
            w(f"    {{ let h = ext[{b}].pop().unwrap(); let this = &ext[{a}][0];")
            if m == "plain":
                w(f"      this.slots.borrow_mut().push(({b}, h)); }}")
            elif m == "adopt":
                w(f"      unsafe {{ Rc::adopt_unchecked(this, &h); }} this.slots.borrow_mut().push(({b}, h)); }}")
            elif m == "late":
                w(f"      this.slots.borrow_mut().push(({b}, h)); let s = this.slots.borrow(); unsafe {{ Rc::adopt_unchecked(this, &s.last().unwrap().1); }} }}")
            elif m == "sameref":
                w(f"      unsafe {{ Rc::adopt_unchecked(this, this); }} this.slots.borrow_mut().push(({b}, h)); }}")
        elif k == "take":
            w(f"    {{ let h = take(&ext[{a}][0], {b});")
            if m == "unadopt":
                w(f"      Rc::unadopt(&ext[{a}][0], &h);")
            elif m == "sameref":
                w(f"      Rc::unadopt(&ext[{a}][0], &ext[{a}][0]);")
            elif m == "elide":
                w("      // unadopt deliberately not called")
            w(f"      ext[{b}].push(h); }}")
        elif k == "unadopt":
            if m == "sameref":
                w(f"    Rc::unadopt(&ext[{a}][0], &ext[{a}][0]);")
            elif a == b:
                w(f"    Rc::unadopt(&ext[{a}][0], &ext[{a}][1]);")
            else:
                w(f"    Rc::unadopt(&ext[{a}][0], &ext[{b}][0]);")
        elif k == "downgrade":
            w(f"    {{ let wk = Rc::downgrade(&ext[{a}][0]); extw[{a}].push(wk); }}")
        elif k == "upgrade":
            w(f"    if let Some(h) = extw[{a}][0].upgrade() {{ ext[{a}].push(h); }}")
        elif k == "cloneweak":
            w(f"    {{ let wk = Weak::clone(&extw[{a}][0]); extw[{a}].push(wk); }}")
        elif k == "dropweak":
            w(f"    {{ let wk = extw[{a}].pop().unwrap(); drop(wk); }}")
        elif k == "storeweak":
            w(f"    {{ let wk = extw[{b}].pop().unwrap(); ext[{a}][0].wslots.borrow_mut().push(({b}, wk)); }}")
        elif k == "takeweak":
            w(f"    {{ let wk = {{ let mut s = ext[{a}][0].wslots.borrow_mut(); let i = s.iter().rposition(|(t, _)| *t == {b}).unwrap(); s.remove(i).1 }}; extw[{b}].push(wk); }}")
        elif k == "tryunwrap":
            w(f"    {{ let h = ext[{a}].pop().unwrap(); match Rc::try_unwrap(h) {{ Ok(v) => unwrapped[{a}] = Some(v), Err(h) => ext[{a}].push(h) }} }}")
        elif k == "dropunwrapped":
            w(f"    {{ let v = unwrapped[{a}].take(); drop(v); }}")
        elif k == "makemut":
            w(f"    {{ let mut h = ext[{a}].pop().unwrap(); let before = Rc::as_ptr(&h); let _ = Rc::make_mut(&mut h); if Rc::as_ptr(&h) != before {{ ext[next].push(h); next += 1; }} else {{ ext[{a}].push(h); }} }}")
        elif k == "getmut":
            w(f"    {{ let mut h = ext[{a}].pop().unwrap(); let _ = Rc::get_mut(&mut h).is_some(); ext[{a}].push(h); }}")
        elif k == "rawroundtrip":
            w(f"    {{ let h = ext[{a}].pop().unwrap(); let p = Rc::into_raw(h); ext[{a}].push(unsafe {{ Rc::from_raw(p) }}); }}")
        elif k == "incstrong":
            w(f"    {{ let h = ext[{a}].pop().unwrap(); let p = Rc::into_raw(h); unsafe {{ Rc::increment_strong_count(p); ext[{a}].push(Rc::from_raw(p)); ext[{a}].push(Rc::from_raw(p)); }} }}")
        elif k == "decstrong":
            w(f"    {{ let h = ext[{a}].pop().unwrap(); let p = Rc::into_raw(h); unsafe {{ Rc::decrement_strong_count(p); }} }}")
        else:
            return None
        w(f'    println!("after step {i} ({op}): destroyed so far {{:?}}", dropped());')
        w(f'    check(&ext, {i});')
    if doc["clause"] == "K3":
        import re
        mm = re.search(r"objects 0b([01]+) had to be destroyed", doc["observed"])
        if mm:
            bits = mm.group(1)[::-1]
            for o, bit in enumerate(bits):
                if bit == "1":
                    w(f'    assert!(dropped().contains(&{o}), "object {o} is orphaned (every handle to its recorded group is a recorded adoption held inside the group) and had to be destroyed by the last call");')
    w("    // what the program still holds must be intact; compare the output above with the explorer's report")
    w("    for (o, hs) in ext.iter().enumerate() { for h in hs { assert_eq!(h.id, o, \"value of a held handle\"); } }")
    w("    std::mem::forget((ext, extw, unwrapped)); // the explorer does not tear the graph down either")
    w("}")
    w('''
/// no destructor ran twice, and no object the program holds a handle to was destroyed
fn check(ext: &[Vec<Rc<Node>>], step: usize) {
    let d = dropped();
    for (i, x) in d.iter().enumerate() {
        assert!(!d[..i].contains(x), "destructor of object {x} ran twice (after step {step})");
    }
    for (o, hs) in ext.iter().enumerate() {
        if !hs.is_empty() {
            assert!(!d.contains(&o), "object {o} was destroyed while the program holds a handle to it (after step {step})");
        }
    }
}

/// a strong handle to `o` stored in a value reachable from outside handles
fn find(ext: &[Vec<Rc<Node>>], o: usize) -> Option<Rc<Node>> {
    fn walk(h: &Rc<Node>, o: usize, seen: &mut Vec<usize>) -> Option<Rc<Node>> {
        if seen.contains(&h.id) { return None; }
        seen.push(h.id);
        let s = h.slots.borrow();
        for (t, c) in s.iter() { if *t == o { return Some(Rc::clone(c)); } }
        for (_, c) in s.iter() { if let Some(r) = walk(c, o, seen) { return Some(r); } }
        None
    }
    let mut seen = Vec::new();
    for hs in ext { if let Some(h) = hs.first() { if let Some(r) = walk(h, o, &mut seen) { return Some(r); } } }
    None
}''')
    return "\n".join(out) + "\n"
