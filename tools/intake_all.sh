#!/bin/bash
# intake_all.sh "<PROP> <letter>" ... : sequential intake, log to tmp/intake.log
for item in "$@"; do
  set -- $item
  echo "=== $1 $2 $(date +%T)" >> /verif/tmp/intake.log
  /verif/tools/intake.py $1 $2 >> /verif/tmp/intake.log 2>&1
done
echo "=== ALL DONE $(date +%T)" >> /verif/tmp/intake.log
