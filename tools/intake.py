#!/usr/bin/env python3
"""intake.py <PROP> <letter> [--props ...]: verify a sub-agent's seeded change in a scratch worktree,
keep it under /verif/seeded/<PROP>-<letter>/ and record which checks catch it."""
import json, os, subprocess, sys, shutil
prop, x = sys.argv[1], sys.argv[2]
sd = os.environ.get("SEED_DIR_FMT", "/tmp/seed-{prop}").format(prop=prop)
dest_letter = os.environ.get("DEST_LETTER", x)
props = None
if "--props" in sys.argv:
    props = sys.argv[sys.argv.index("--props") + 1]
v = subprocess.run(["/verif/tools/verify_seed.sh", sd, x], capture_output=True, text=True).stdout
print(v)
parts = v.split("== ")
ok_unchanged = "test result: ok" in parts[1]
suite_ok = " 0 failed" in parts[2] and not parts[2].strip().endswith("passed  failed")
demo_fails = ("FAILED" in parts[3]) or ("error:" in parts[3]) or ("signal" in parts[3]) or ("ERROR: AddressSanitizer" in parts[3].split("unchanged tree")[0])
if "unchanged-asan:" in parts[3] and "unchanged-asan: test result: ok" not in parts[3]:
    ok_unchanged = False
dest = f"/verif/seeded/{prop}-{dest_letter}"
if not (ok_unchanged and suite_ok and demo_fails):
    print(f"NOT KEPT: unchanged_ok={ok_unchanged} suite_ok={suite_ok} demo_fails={demo_fails}")
    sys.exit(1)
os.makedirs(dest, exist_ok=True)
shutil.copy(f"{sd}/patch_{x}.diff", f"{dest}/patch.diff")
shutil.copy(f"{sd}/demo_{x}.rs", f"{dest}/demo.rs")
notes = {}
try:
    notes = json.load(open(f"{sd}/notes.json")).get(x, {})
except Exception as e:
    notes = {"note": f"notes.json unreadable: {e}"}
default = [prop] if os.environ.get("TARGET_ONLY") else sorted(set([prop, "C01", "C02", "C03", "C04", "C05", "C06", "C08"]))
plist = props or ",".join(default)
r = subprocess.run(["/verif/tools/seedtest.py", f"{dest}/patch.diff", "--props", plist, "--skip-suite"], capture_output=True, text=True)
res = json.loads(r.stdout.strip().splitlines()[-1])
meta = {
    "breaks_property": prop,
    "what": notes.get("what"),
    "needs_to_manifest": notes.get("needs"),
    "origin": "independent sub-agent given only the property text and a scratch worktree",
    "confirmed_by_me": {
        "scratch_worktree": "tools/verify_seed.sh: patch applies to HEAD; repository suite passes with it; demo passes on the unchanged tree and fails with the change",
        "verify_output": v.strip().splitlines(),
    },
    "checks_run_against_it": res["results"],
    "detected_by": res["detected_by"],
    "first_report": res["lines"],
}
json.dump(meta, open(f"{dest}/meta.json", "w"), indent=1)
print("KEPT", dest, "detected_by", res["detected_by"], "results", res["results"])
