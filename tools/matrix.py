#!/usr/bin/env python3
"""Re-run, for every kept seeded change, the check of the property it breaks plus every check that
reported it before; update meta.json. Usage: tools/matrix.py [--all-props]"""
import glob, json, os, subprocess, sys
VERIF = os.path.dirname(os.path.dirname(os.path.abspath(__file__)))
ALL = [f"C{i:02d}" for i in range(1, 17)]
for d in sorted(glob.glob(os.path.join(VERIF, "seeded", "*"))):
    mp = os.path.join(d, "meta.json")
    meta = json.load(open(mp)) if os.path.exists(mp) else {}
    target = meta.get("breaks_property") or os.path.basename(d).split("-")[0]
    if "--all-props" in sys.argv:
        props = ALL
    elif "--target-only" in sys.argv:
        props = [target] if target in ALL else []
        if "--skip-done" in sys.argv and os.path.basename(d) < os.environ.get("MATRIX_FROM", ""):
            continue
    else:
        props = sorted(set([target] + meta.get("detected_by", [])) & set(ALL))
    if not props:
        continue
    r = subprocess.run([os.path.join(VERIF, "tools", "seedtest.py"), os.path.join(d, "patch.diff"), "--props", ",".join(props)] + ([] if "suite" not in meta else ["--skip-suite"]), capture_output=True, text=True)
    try:
        res = json.loads(r.stdout.strip().splitlines()[-1])
    except Exception:
        print(d, "seedtest failed:", r.stdout[-300:], r.stderr[-300:])
        continue
    meta.setdefault("breaks_property", target)
    allres = meta.get("checks_run_against_it", {})
    allres.update(res["results"])
    meta["checks_run_against_it"] = allres
    meta["detected_by"] = sorted(p for p, c in allres.items() if c == 1)
    if "suite" in res:
        meta["suite"] = res["suite"]
    fr = meta.get("first_report", {})
    fr.update(res["lines"])
    meta["first_report"] = {p: fr[p] for p in fr if allres.get(p) == 1}
    json.dump(meta, open(mp, "w"), indent=1)
    print(os.path.basename(d), "target", target, "detected_by", meta["detected_by"], flush=True)
