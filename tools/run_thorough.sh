#!/bin/bash
# runs every thorough tier once, sequentially; log in tmp/thorough.log
cd /verif
for p in "$@"; do
  echo "=== $p $(date +%T)" >> tmp/thorough.log
  /usr/bin/time -f "%es wall" ./check $p --tier thorough >> tmp/thorough.log 2>&1
  cp evidence/$p.json tmp/evidence-thorough-$p.json
done
echo "=== DONE $(date +%T)" >> tmp/thorough.log
