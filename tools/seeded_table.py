#!/usr/bin/env python3
"""Regenerate the table of seeded changes in DESIGN.md (between the SEEDED-TABLE markers) from seeded/*/meta.json."""
import glob, json, os, re
VERIF = os.path.dirname(os.path.dirname(os.path.abspath(__file__)))
rows = []
for d in sorted(glob.glob(os.path.join(VERIF, "seeded", "*"))):
    mp = os.path.join(d, "meta.json")
    if not os.path.exists(mp):
        continue
    m = json.load(open(mp))
    what = (m.get("what") or "").replace("\n", " ").replace("|", "/")
    what = what[:230] + ("..." if len(what) > 230 else "")
    needs = (m.get("needs_to_manifest") or "").replace("\n", " ").replace("|", "/")
    needs = needs[:170] + ("..." if len(needs) > 170 else "")
    det = ", ".join(m.get("detected_by", [])) or "**none**"
    first = ""
    fr = m.get("first_report", {})
    tgt = m.get("breaks_property")
    if tgt in fr and fr[tgt]:
        for l in fr[tgt]:
            if "clause" in l or "ring" in l or "disagree" in l or "program" in l:
                first = l.strip().replace("|", "/")[:150]
                break
    rows.append(f"| `{os.path.basename(d)}` | {tgt} | {what} | {needs} | {det} | {first} |")
table = "| seeded change | breaks | what was changed | needs | reported by (quick tier) | first report of the property's own check |\n|---|---|---|---|---|---|\n" + "\n".join(rows)
p = os.path.join(VERIF, "DESIGN.md")
s = open(p).read()
s = re.sub(r"<!-- SEEDED-TABLE-BEGIN -->.*<!-- SEEDED-TABLE-END -->", "<!-- SEEDED-TABLE-BEGIN -->\n" + table + "\n<!-- SEEDED-TABLE-END -->", s, flags=re.S)
open(p, "w").write(s)
print(len(rows), "rows")
