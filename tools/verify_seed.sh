#!/bin/bash
# verify_seed.sh <seed-dir> <letter> : confirm in a scratch worktree that the change compiles, the
# repository's tests pass with it, and the demonstration fails with it and passes without it.
set -u
SD=$1; X=$2
WT=/tmp/wt-verify-$$
git -C /repo worktree add -q $WT HEAD || exit 2
cd $WT
cp $SD/demo_$X.rs tests/seed_demo_$X.rs
export CARGO_NET_OFFLINE=true
echo "== unchanged tree: demo"
cargo test --offline --test seed_demo_$X 2>&1 | grep -E "test result|error(\[|:)|panicked" | head -5
git apply $SD/patch_$X.diff || { echo "PATCH DOES NOT APPLY"; cd /; git -C /repo worktree remove --force $WT; exit 2; }
echo "== with change: repository suite (demo excluded)"
mv tests/seed_demo_$X.rs /tmp/seed_demo_$X.$$.rs
cargo test --offline --workspace --no-fail-fast 2>&1 | grep "test result" | awk '{p+=$4; f+=$6} END{print p, "passed", f, "failed"}'
mv /tmp/seed_demo_$X.$$.rs tests/seed_demo_$X.rs
echo "== with change: demo"
OUT=$(cargo test --offline --test seed_demo_$X 2>&1 | grep -E "test result|error(\[|:)|panicked|signal" | head -5)
echo "$OUT"
if echo "$OUT" | grep -q "test result: ok" && ! echo "$OUT" | grep -q "FAILED\|error"; then
  echo "(native run passes; the demonstration needs a sanitizer) -- AddressSanitizer, with change:"
  RUSTFLAGS=-Zsanitizer=address CARGO_TARGET_DIR=$WT/target-asan ASAN_OPTIONS=detect_leaks=0 cargo test --offline --target x86_64-unknown-linux-gnu --test seed_demo_$X 2>&1 | grep -E "test result|ERROR: AddressSanitizer|error(\[|:)|signal" | head -3
  git apply -R $SD/patch_$X.diff
  echo "(AddressSanitizer, unchanged tree:)"
  RUSTFLAGS=-Zsanitizer=address CARGO_TARGET_DIR=$WT/target-asan ASAN_OPTIONS=detect_leaks=0 cargo test --offline --target x86_64-unknown-linux-gnu --test seed_demo_$X 2>&1 | grep -E "test result|ERROR: AddressSanitizer|error(\[|:)|signal" | sed 's/^/unchanged-asan: /' | head -3
fi
cd /
git -C /repo worktree remove --force $WT
