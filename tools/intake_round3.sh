#!/bin/bash
export SEED_DIR_FMT="/tmp/seed3-{prop}" DEST_LETTER=d TARGET_ONLY=1
for p in C01 C02 C04 C05 C06 C07 C08 C09 C10 C11 C12 C13 C14 C15 C16; do
  echo "=== $p d $(date +%T)" >> /verif/tmp/intake3.log
  /verif/tools/intake.py $p a >> /verif/tmp/intake3.log 2>&1
done
echo "=== ALL DONE $(date +%T)" >> /verif/tmp/intake3.log
