#!/usr/bin/env python3
"""Apply a seeded change to /repo's working tree, run the repository's own
tests (they must still pass) and the listed checks (default: all), undo it.

  tools/seedtest.py <patch.diff> [--props C01,C02] [--tier quick] [--skip-suite]
Prints one JSON line: {"patch":..., "suite_passed":bool, "detected_by":[...], "results":{prop: exit}}
"""
import json, os, subprocess, sys, re

VERIF = os.path.dirname(os.path.dirname(os.path.abspath(__file__)))
ALL = [f"C{i:02d}" for i in range(1, 17)]


def main():
    patch = os.path.abspath(sys.argv[1])
    props = ALL
    tier = "quick"
    if "--props" in sys.argv:
        props = sys.argv[sys.argv.index("--props") + 1].split(",")
    if "--tier" in sys.argv:
        tier = sys.argv[sys.argv.index("--tier") + 1]
    st = subprocess.run(["git", "-C", "/repo", "status", "--porcelain", "--untracked-files=no"], capture_output=True, text=True).stdout.strip()
    if st:
        print("refusing: /repo working tree is not clean:\n" + st)
        return 2
    r = subprocess.run(["git", "-C", "/repo", "apply", patch], capture_output=True, text=True)
    if r.returncode != 0:
        print("patch does not apply:", r.stderr)
        return 2
    out = {"patch": patch, "results": {}, "detected_by": [], "lines": {}}
    try:
        if "--skip-suite" not in sys.argv:
            t = subprocess.run("cd /repo && CARGO_NET_OFFLINE=true cargo test --workspace --no-fail-fast --offline 2>&1 | grep 'test result'", shell=True, capture_output=True, text=True).stdout
            passed = sum(int(m) for m in re.findall(r"(\d+) passed", t))
            failed = sum(int(m) for m in re.findall(r"(\d+) failed", t))
            out["suite"] = {"passed": passed, "failed": failed}
            out["suite_passed"] = failed == 0 and passed >= 39
        for p in props:
            r = subprocess.run([os.path.join(VERIF, "check"), p, "--tier", tier], cwd=VERIF, capture_output=True, text=True)
            out["results"][p] = r.returncode
            if r.returncode == 1:
                out["detected_by"].append(p)
                out["lines"][p] = [l for l in r.stdout.splitlines() if l.startswith("VIOLATION") or l.startswith("  clause") or l.startswith("  history") or l.startswith("  ")][:4]
            elif r.returncode != 0:
                out["lines"][p] = r.stdout.splitlines()[-3:]
    finally:
        subprocess.run(["git", "-C", "/repo", "checkout", "--", "."])
        # evidence files were rewritten by runs against the changed tree: put the committed ones back
        subprocess.run(["git", "-C", VERIF, "checkout", "--", "evidence"], capture_output=True)
        # rebuild against the restored tree so that no stale binary is left behind
        subprocess.run([os.path.join(VERIF, "check"), "--setup"], cwd=VERIF, capture_output=True, text=True)
    print(json.dumps(out))
    return 0


if __name__ == "__main__":
    sys.exit(main())
