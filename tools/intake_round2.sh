#!/bin/bash
export SEED_DIR_FMT="/tmp/seed2-{prop}" DEST_LETTER=c TARGET_ONLY=1
for p in C01 C02 C03 C04 C05 C06 C07 C08 C09 C10 C11 C12 C13 C14 C15 C16; do
  echo "=== $p c $(date +%T)" >> /verif/tmp/intake2.log
  /verif/tools/intake.py $p a >> /verif/tmp/intake2.log 2>&1
done
echo "=== ALL DONE $(date +%T)" >> /verif/tmp/intake2.log
