#!/bin/bash
while ! grep -q "ALL DONE" /verif/tmp/intake.log; do sleep 20; done
sed -i 's/=== ALL DONE/=== BATCH1 DONE/' /verif/tmp/intake.log
/verif/tools/intake_all.sh "C01 a" "C01 b" "C09 a" "C09 b" "C10 a" "C10 b" "C11 a" "C11 b" "C12 a" "C12 b" "C13 a" "C13 b" "C14 a" "C14 b" "C15 a" "C15 b" "C16 a" "C16 b"
